"""C37 / C38 — nRF52 security toolbox (bluetoe/bindings/nordic/nrf52/security_tool_box.cpp)

The real .cpp is built on the host against an emulated register header (harness/crypto/nrf_stub):
NRF_RNG delivers a scripted byte stream, NRF_ECB runs AES-128 (tests/test_tools/aes.c) on the
structure at ECBDATAPTR.
"""
from vlib.core import Result, DEFAULT_FLAGS

NAME = "crypto"
LEAN_MODULE = "BluetoeModel.Crypto"
DRIVER = "drv_crypto"
HARNESS_DESC = "harness/crypto.cpp (real nrf52/security_tool_box.cpp over emulated NRF_RNG / NRF_ECB registers)"
HARNESS = dict(
    src="harness/crypto.cpp",
    repo_srcs=["bluetoe/utility/address.cpp"],
    includes=["bluetoe/bindings/nordic/include", "bluetoe/bindings/nordic/nrf52/include",
              "bluetoe/bindings/nordic/uECC", "tests/test_tools"],
    abs_includes=["harness/crypto/nrf_stub"],
    flags=DEFAULT_FLAGS + ["-fpermissive", "-no-pie"],
    c_srcs=["bluetoe/bindings/nordic/uECC/uECC.c", "tests/test_tools/aes.c"],
    c_defines=["uECC_CURVE=uECC_secp256r1"],
)


def hx(bs):
    return bytes(bs).hex() if len(bs) else "-"


# ============================================================================================
# independent oracle: AES-128 (FIPS-197, S-box computed from its definition), AES-CMAC
# (RFC 4493), the Core specification's functions (Vol 3 Part H 2.2), P-256 arithmetic.
# All values are big-endian byte strings (most significant octet first) as in the specifications.
# ============================================================================================
def _gmul(a, b):
    p = 0
    for _ in range(8):
        if b & 1:
            p ^= a
        a = ((a << 1) ^ 0x11b) if a & 0x80 else (a << 1)
        b >>= 1
    return p & 0xff


def _make_sbox():
    box = []
    for x in range(256):
        inv = 0
        if x:
            for y in range(1, 256):
                if _gmul(x, y) == 1:
                    inv = y
                    break
        s = inv
        for i in range(1, 5):
            s ^= ((inv << i) | (inv >> (8 - i))) & 0xff
        box.append(s ^ 0x63)
    return box


SBOX = _make_sbox()


def aes128(key, pt):
    assert len(key) == 16 and len(pt) == 16
    w = [list(key[4 * i:4 * i + 4]) for i in range(4)]
    rcon = 1
    for i in range(4, 44):
        t = list(w[i - 1])
        if i % 4 == 0:
            t = [SBOX[t[1]] ^ rcon, SBOX[t[2]], SBOX[t[3]], SBOX[t[0]]]
            rcon = _gmul(rcon, 2)
        w.append([a ^ b for a, b in zip(w[i - 4], t)])
    rk = lambda r: [b for word in w[4 * r:4 * r + 4] for b in word]
    s = [a ^ b for a, b in zip(pt, rk(0))]
    for r in range(1, 11):
        s = [SBOX[b] for b in s]
        s = [s[(i % 4) + 4 * ((i // 4 + i % 4) % 4)] for i in range(16)]
        if r != 10:
            n = []
            for c in range(4):
                a = s[4 * c:4 * c + 4]
                n += [_gmul(a[0], 2) ^ _gmul(a[1], 3) ^ a[2] ^ a[3], a[0] ^ _gmul(a[1], 2) ^ _gmul(a[2], 3) ^ a[3],
                      a[0] ^ a[1] ^ _gmul(a[2], 2) ^ _gmul(a[3], 3), _gmul(a[0], 3) ^ a[1] ^ a[2] ^ _gmul(a[3], 2)]
            s = n
        s = [a ^ b for a, b in zip(s, rk(r))]
    return bytes(s)


def _xor(a, b):
    return bytes(x ^ y for x, y in zip(a, b))


def _dbl(b):
    v = (int.from_bytes(b, "big") << 1) & ((1 << 128) - 1)
    if b[0] & 0x80:
        v ^= 0x87
    return v.to_bytes(16, "big")


def cmac_subkeys(key):
    k1 = _dbl(aes128(key, bytes(16)))
    return k1, _dbl(k1)


def cmac(key, msg):
    k1, k2 = cmac_subkeys(key)
    n = max(1, (len(msg) + 15) // 16)
    if len(msg) and len(msg) % 16 == 0:
        last = _xor(msg[16 * (n - 1):], k1)
    else:
        tail = msg[16 * (n - 1):]
        last = _xor(tail + b"\x80" + bytes(15 - len(tail)), k2)
    x = bytes(16)
    for i in range(n - 1):
        x = aes128(key, _xor(x, msg[16 * i:16 * i + 16]))
    return aes128(key, _xor(x, last))


def spec_c1(k, r, p1, p2):
    return aes128(k, _xor(aes128(k, _xor(r, p1)), p2))


def spec_s1(k, r1, r2):
    return aes128(k, r1[8:] + r2[8:])


def spec_f4(u, v, x, z):
    return cmac(x, u + v + bytes([z]))


F5_SALT = bytes.fromhex("6C888391AAF5A53860370BDB5A6083BE")


def spec_f5(w, n1, n2, a1, a2):
    t = cmac(F5_SALT, w)
    body = b"btle" + n1 + n2 + a1 + a2 + b"\x01\x00"
    return cmac(t, b"\x00" + body), cmac(t, b"\x01" + body)


def spec_f6(w, n1, n2, r, iocap, a1, a2):
    return cmac(w, n1 + n2 + r + iocap + a1 + a2)


def spec_g2(u, v, x, y):
    return int.from_bytes(cmac(x, u + v + y), "big") % (1 << 32)


P256_P = 0xffffffff00000001000000000000000000000000ffffffffffffffffffffffff
P256_B = 0x5ac635d8aa3a93e7b3ebbd55769886bc651d06b0cc53b0f63bce3c3e27d2604b
P256_G = (0x6b17d1f2e12c4247f8bce6e563a440f277037d812deb33a0f4a13945d898c296,
          0x4fe342e2fe1a7f9b8ee7eb4a7c0f9e162bce33576b315ececbb6406837bf51f5)


def p256_on_curve(x, y):
    return x < P256_P and y < P256_P and (y * y - (x * x * x - 3 * x + P256_B)) % P256_P == 0


def p256_add(p, q):
    if p is None:
        return q
    if q is None:
        return p
    (x1, y1), (x2, y2) = p, q
    if x1 == x2 and (y1 + y2) % P256_P == 0:
        return None
    if p == q:
        l = (3 * x1 * x1 - 3) * pow(2 * y1, -1, P256_P)
    else:
        l = (y2 - y1) * pow(x2 - x1, -1, P256_P)
    x3 = (l * l - x1 - x2) % P256_P
    return x3, (l * (x1 - x3) - y1) % P256_P


def p256_mul(k, p):
    r = None
    while k:
        if k & 1:
            r = p256_add(r, p)
        p = p256_add(p, p)
        k >>= 1
    return r


# ============================================================================================
# C37 — toolbox functions
# ============================================================================================
def rv(b):
    """memory order (least significant byte first) <-> specification order"""
    return bytes(b)[::-1]


def rnd(rng, n):
    return bytes(rng.randrange(256) for _ in range(n))


EDGE_BLOCKS = [bytes(16), b"\xff" * 16, b"\x80" + bytes(15), bytes(15) + b"\x80", b"\x01" + bytes(15), bytes(15) + b"\x01",
               b"\x7f" + b"\xff" * 15, b"\xff" * 15 + b"\x7f", bytes(range(16)), bytes(range(15, -1, -1))]


def blk(rng, n=16):
    r = rng.random()
    if r < 0.7 or n != 16:
        if r > 0.9:
            return bytes([rng.choice([0, 0xff, 0x80, 0x01])]) * n
        return rnd(rng, n)
    return rng.choice(EDGE_BLOCKS)


def addr7(rng):
    return rnd(rng, 6) + bytes([rng.randrange(2)])


def a56(a7):
    """56-bit address value of the specification: type octet, then the address msb first"""
    return bytes([a7[6]]) + rv(a7[:6])


def p256_point(rng):
    k = rng.choice([1, 2, 3, rng.randrange(1, 1 << 16), rng.randrange(1, 1 << 256)])
    return p256_mul(k, P256_G)


def pk_bytes(x, y):
    return x.to_bytes(32, "little") + y.to_bytes(32, "little")


def gen_validpk(rng, res):
    """64 byte public key (x, y least significant byte first) and its class"""
    r = rng.random()
    x, y = p256_point(rng)
    if r < 0.35:
        cls = "valid"
    elif r < 0.45:
        y, cls = P256_P - y, "valid-negated"
    elif r < 0.60:
        b = rng.randrange(512)
        if b < 256:
            x ^= 1 << b
        else:
            y ^= 1 << (b - 256)
        cls = "bit-flip"
    elif r < 0.68:
        x, y, cls = y, x, "swapped"
    elif r < 0.76:       # coordinate + p: same residue, not reduced (fits in 256 bits only for small values)
        if rng.random() < 0.5:
            x, cls = (x % (2 ** 256 - P256_P)) + P256_P, "x>=p"
        else:
            y, cls = (y % (2 ** 256 - P256_P)) + P256_P, "y>=p"
    elif r < 0.80:
        # a point whose y is small enough that y + p still fits: search x with small-ish y is hard; use congruent lift when possible
        if y + P256_P < 2 ** 256:
            y, cls = y + P256_P, "on-curve-mod-p-but-y>=p"
        elif x + P256_P < 2 ** 256:
            x, cls = x + P256_P, "on-curve-mod-p-but-x>=p"
        else:
            cls = "valid"
    elif r < 0.86:
        x, y, cls = rng.choice([(0, 0), (0, 1), (1, 0), (P256_P, P256_P), (P256_P - 1, P256_P - 1), (2 ** 256 - 1, 2 ** 256 - 1),
                               (P256_P, 0), (0, P256_P)]) + ("special",)
    elif r < 0.90:       # x = 0 is on the curve with y = sqrt(b)
        y0 = pow(P256_B, (P256_P + 1) // 4, P256_P)
        x, y, cls = 0, rng.choice([y0, P256_P - y0]), "x=0-valid"
    else:
        x, y, cls = rng.randrange(1 << 256), rng.randrange(1 << 256), "random"
    res.count("validpk:" + cls)
    return pk_bytes(x, y), cls


def gen_c37_op(rng, res):
    """one toolbox op line (arguments in memory order)"""
    kind = rng.choice(["aes", "xor", "shl", "k1", "k2", "c1", "c1", "s1", "s1", "f4", "f4", "f5", "f5", "f5key", "f5cmac",
                       "f6", "f6", "g2", "g2", "validpk", "validpk", "validpk"])
    res.count("op:" + kind)
    if kind == "validpk":
        return "validpk " + gen_validpk(rng, res)[0].hex()
    sizes = {"aes": [16, 16], "xor": [16, 16], "shl": [16], "k1": [16], "k2": [16], "c1": [16] * 4, "s1": [16] * 3,
             "f4": [32, 32, 16, 1], "f5": [32, 16, 16], "f5key": [32], "f5cmac": [16, 64], "f6": [16, 16, 16, 16, 3],
             "g2": [32, 32, 16, 16]}[kind]
    args = [blk(rng, n) for n in sizes]
    if kind in ("f5", "f6"):
        args += [addr7(rng), addr7(rng)]
    return kind + " " + " ".join(a.hex() for a in args)


def gen_c37_malformed(rng, res):
    """wrong argument counts / lengths / not hex: both sides must answer bad-op"""
    res.count("op:malformed")
    kind = rng.choice(["aes", "c1", "s1", "f4", "f5", "f6", "g2", "validpk", "k1", "frob"])
    n = rng.randrange(0, 6)
    return kind + " " + " ".join(rnd(rng, rng.choice([0, 1, 15, 16, 17, 31, 32, 33, 63, 64, 65])).hex() or "-" for _ in range(n))


def c37_expected(op):
    """the value the specifications define for a toolbox op (None: no specification for this op)"""
    w = op.split()
    try:
        a = [bytes.fromhex(x) for x in w[1:]]
    except ValueError:
        return None
    k = w[0]
    n = [len(x) for x in a]
    if k == "aes" and n == [16, 16]:
        return rv(aes128(rv(a[0]), rv(a[1]))).hex()
    if k == "xor" and n == [16, 16]:
        return _xor(a[0], a[1]).hex()
    if k == "shl" and n == [16]:
        return ((int.from_bytes(a[0], "little") << 1) % (1 << 128)).to_bytes(16, "little").hex()
    if k == "k1" and n == [16]:
        return rv(cmac_subkeys(rv(a[0]))[0]).hex()
    if k == "k2" and n == [16]:
        return rv(cmac_subkeys(rv(a[0]))[1]).hex()
    if k == "c1" and n == [16] * 4:
        return rv(spec_c1(*[rv(x) for x in a])).hex()
    if k == "s1" and n == [16] * 3:
        return rv(spec_s1(*[rv(x) for x in a])).hex()
    if k == "f4" and n == [32, 32, 16, 1]:
        return rv(spec_f4(rv(a[0]), rv(a[1]), rv(a[2]), a[3][0])).hex()
    if k == "f5" and n == [32, 16, 16, 7, 7]:
        m, l = spec_f5(rv(a[0]), rv(a[1]), rv(a[2]), a56(a[3]), a56(a[4]))
        return rv(m).hex() + ":" + rv(l).hex()
    if k == "f5key" and n == [32]:
        return rv(cmac(F5_SALT, rv(a[0]))).hex()
    if k == "f5cmac" and n == [16, 64]:
        # the 64 byte buffer holds a 53 octet message reversed, then 0x80 and zero padding (not checked by the code)
        msg = rv(a[1])
        k2 = cmac_subkeys(rv(a[0]))[1]
        x = bytes(16)
        for i in range(3):
            x = aes128(rv(a[0]), _xor(x, msg[16 * i:16 * i + 16]))
        return rv(aes128(rv(a[0]), _xor(x, _xor(msg[48:], k2)))).hex()
    if k == "f6" and n == [16, 16, 16, 16, 3, 7, 7]:
        return rv(spec_f6(rv(a[0]), rv(a[1]), rv(a[2]), rv(a[3]), rv(a[4]), a56(a[5]), a56(a[6]))).hex()
    if k == "g2" and n == [32, 32, 16, 16]:
        return str(spec_g2(*[rv(x) for x in a]))
    if k == "validpk" and n == [64]:
        x, y = int.from_bytes(a[0][:32], "little"), int.from_bytes(a[0][32:], "little")
        return "1" if p256_on_curve(x, y) else "0"
    return "bad-op"


# specification sample data: RFC 4493 section 4, FIPS-197 C.1, Core Spec Vol 3 Part H appendix D
RFC4493_KEY = "2b7e151628aed2a6abf7158809cf4f3c"
RFC4493_MSG = ("6bc1bee22e409f96e93d7e117393172aae2d8a571e03ac9c9eb76fac45af8e5130c81c46a35ce411e5fbc1191a0a52ef"
               "f69f2445df4f9b17ad2b417be66c3710")
SPEC_U = "20b003d2f297be2c5e2c83a7e9f9a5b9eff49111acf4fddbcc0301480e359de6"
SPEC_V = "55188b3d32f6bb9a900afcfbeed4e72a59cb9ac2f19d7cfb6b4fdd49f47fc5fd"
SPEC_X = "d5cb8454d177733effffb2ec712baeab"
SPEC_Y = "a6e8e7cc25a75f6e216583f7ff3dc4cf"
SPEC_W = "ec0234a357c8ad05341010a60a397d9b99796b13b4f866f1868d34f373bfa698"
SPEC_A1, SPEC_A2 = "00561237 37bfce".replace(" ", ""), "00a713702dcfc1"
SPEC_MACKEY, SPEC_LTK = "2965f176a1084a02fd3f6a20ce636e20", "6986791169d7cd23980522b594750a38"
SPEC_VECTORS = [   # (spec-side op for the Lean driver, expected output) — octets most significant first
    ("spec_aes 000102030405060708090a0b0c0d0e0f 00112233445566778899aabbccddeeff", "69c4e0d86a7b0430d8cdb78070b4c55a"),
    ("spec_subkeys " + RFC4493_KEY, "fbeed618357133667c85e08f7236a8de:f7ddac306ae266ccf90bc11ee46d513b"),
    ("spec_cmac " + RFC4493_KEY + " -", "bb1d6929e95937287fa37d129b756746"),
    ("spec_cmac " + RFC4493_KEY + " " + RFC4493_MSG[:32], "070a16b46b4d4144f79bdd9dd04a287c"),
    ("spec_cmac " + RFC4493_KEY + " " + RFC4493_MSG[:80], "dfa66747de9ae63030ca32611497c827"),
    ("spec_cmac " + RFC4493_KEY + " " + RFC4493_MSG, "51f0bebf7e3b9d92fc49741779363cfe"),
    ("spec_c1 " + "00" * 16 + " 5783d52156ad6f0e6388274ec6702ee0 05000800000302070710000001010001 00000000a1a2a3a4a5a6b1b2b3b4b5b6",
     "1e1e3fef878988ead2a74dc5bef13b86"),
    ("spec_s1 " + "00" * 16 + " 000f0e0d0c0b0a091122334455667788 010203040506070899aabbccddeeff00", "9a1fe1f0e8b0f49b5b4216ae796da062"),
    ("spec_f4 %s %s %s 00" % (SPEC_U, SPEC_V, SPEC_X), "f2c916f107a9bd1cf1eda1bea974872d"),
    ("spec_f5 %s %s %s %s %s" % (SPEC_W, SPEC_X, SPEC_Y, SPEC_A1, SPEC_A2), SPEC_MACKEY + ":" + SPEC_LTK),
    ("spec_f6 %s %s %s 12a3343bb453bb5408da42d20c2d0fc8 010102 %s %s" % (SPEC_MACKEY, SPEC_X, SPEC_Y, SPEC_A1, SPEC_A2),
     "e3c473989cd0e8c5d26c0b09da958f61"),
    ("spec_g2 %s %s %s %s" % (SPEC_U, SPEC_V, SPEC_X, SPEC_Y), str(0x2f9ed5ba)),
]


def spec_to_toolbox(op):
    """the toolbox op (memory order) corresponding to a spec-side sample vector, with its expected output"""
    w = op.split()
    k = w[0][5:]
    a = [bytes.fromhex(x) if x != "-" else b"" for x in w[1:]]
    if k in ("c1", "s1", "g2"):
        return k + " " + " ".join(rv(x).hex() for x in a)
    if k == "f4":
        return "f4 %s %s %s %s" % (rv(a[0]).hex(), rv(a[1]).hex(), rv(a[2]).hex(), a[3].hex())
    if k in ("f5", "f6"):
        head = [rv(x).hex() for x in a[:-2]]
        tail = [(rv(x[1:]) + x[:1]).hex() for x in a[-2:]]
        return k + " " + " ".join(head + tail)
    if k == "aes":
        return "aes " + " ".join(rv(x).hex() for x in a)
    return None


def c37_key(op):
    return "C37:%s-differs-from-specification" % op.split()[0]


def run_c37(ctx, replay_path=None):
    res = Result()
    res.rule = ("sessions = reset + toolbox ops (aes_le, xor_, left_shift, k1/k2 sub-keys, c1, s1, f4, f5, f5_key, f5_cmac, f6, g2, "
                "is_valid_public_key) with arguments in memory order run on the real nRF52 security_tool_box.cpp (NRF_ECB emulated "
                "with tests/test_tools/aes.c; pointer arguments in exactly sized heap blocks under ASan) and on the Lean model "
                "instantiated with the Lean AES-128, compared verbatim. Inputs: random blocks, edge blocks (all 0, all ff, single "
                "top/bottom bits, so that both sub-key branches and every shift carry occur), random addresses with both types; "
                "public keys: valid points k*G, negated, single bit flips, swapped, coordinates >= p (incl. on-curve modulo p), "
                "zero and other special pairs, x = 0, random; a malformed stream (wrong counts / lengths). Monitor, independent of "
                "the model: a Python implementation of FIPS-197, RFC 4493 and Core Vol 3 Part H 2.2 / P-256 computed from the "
                "specification text (S-box from its algebraic definition) must give the same value; the specifications' sample data "
                "(FIPS-197 C.1, RFC 4493 4, Core Vol 3 Part H D.1-D.5) are run on the real code, on the Lean model and on the Lean "
                "specification definitions. Non-trivial = distinct well-formed op line")
    rng = ctx.rng
    sessions = [ops for _, ops in ctx.corpus()]
    # the specifications' sample data, toolbox side
    sample_ops, sample_exp = ["reset"], {}
    for op, exp in SPEC_VECTORS:
        t = spec_to_toolbox(op)
        if t:
            sample_ops.append(t)
            k = t.split()[0]
            sample_exp[t] = exp if k == "g2" else ":".join(rv(bytes.fromhex(x)).hex() for x in exp.split(":"))
    sessions.append(sample_ops)
    n_sessions = 600 if ctx.thorough else 40
    for _ in range(n_sessions):
        ops = ["reset"]
        for _ in range(rng.randrange(10, 50)):
            ops.append(gen_c37_malformed(rng, res) if rng.random() < 0.08 else gen_c37_op(rng, res))
        sessions.append(ops)
    impl, model, dis = ctx.run_pair(sessions)
    for d in dis:
        ops = sessions[d["session"]]
        # every op is independent of the ops before it (the toolbox has no state, the RNG script is
        # part of the op), so the minimal disagreeing sequence is the op itself
        res.disagreements.append(dict(d, ops=["reset", d["op"]], session_ops=len(ops)))
    seen_keys = set()
    for ops, r in zip(sessions, impl):
        res.sessions += 1
        res.evaluations += len(r["out"])
        if r["crash"]:
            k = min(len(r["out"]), len(ops) - 1)
            res.failures.append({"key": "C37:crash:%s:%s" % (ops[k].split()[0], r["crash"].split(" @")[0]), "what": r["crash"],
                                 "ops": ["reset", ops[k]]})
        for op, out in zip(ops[1:], r["out"][1:]):
            exp = sample_exp.get(op) or c37_expected(op)
            if exp is None:
                continue
            res.count("result:" + ("bad-op" if out == "bad-op" else op.split()[0] + ("=" + out if op.startswith("validpk") else "")))
            if out != "bad-op":
                res.distinct.add(op)
            if out != exp and c37_key(op) not in seen_keys:
                seen_keys.add(c37_key(op))
                res.failures.append({"key": c37_key(op),
                                     "what": "%s: the toolbox returned %s, the specification defines %s" % (op.split()[0], out, exp),
                                     "ops": ["reset", op], "observed": out})
    # the Lean specification definitions (Spec.lean over the Lean AES) against the published sample data
    spec_ops = ["reset"] + [op for op, _ in SPEC_VECTORS]
    sm = ctx.run_model([spec_ops])[0]
    bad = [(op, exp, got) for (op, exp), got in zip(SPEC_VECTORS, sm["out"][1:]) if got != exp]
    if sm["crash"] or len(sm["out"]) != len(spec_ops) or bad:
        res.disagreements.append({"session": -1, "op_index": 0, "op": bad[0][0] if bad else "spec vectors", "ops": spec_ops,
                                  "impl": "published sample data: %s" % (bad[0][1] if bad else "?"),
                                  "model": "Spec.lean over the Lean AES: %s" % (bad[0][2] if bad else sm["crash"])})
    res.extra["spec_sample_vectors"] = "%d published sample vectors reproduced by Spec.lean + Lean AES; %d by the real toolbox" % (
        len(SPEC_VECTORS) - len(bad), len(sample_ops) - 1)
    res.samples = [" ; ".join(x[:60] for x in s[:4]) for s in sessions[:3]]
    return res


# ============================================================================================
# C38 — passkeys
# ============================================================================================
def draw_bytes(rng, value):
    """three RNG bytes whose low 20 bits (little endian) are `value`; the 4 spare bits random"""
    return [value & 0xff, (value >> 8) & 0xff, ((value >> 16) & 0x0f) | (rng.randrange(16) << 4)]


ACCEPT_EDGES = [0, 1, 9, 255, 256, 65535, 65536, 123456, 983039, 983040, 999998, 999999]
REJECT_EDGES = [1000000, 1000001, 1048575, 1048574, 1015808]


def gen_passkey_stream(rng, res):
    r = rng.random()
    if r < 0.55:          # structured: k rejected draws, one accepted draw, some unused bytes
        k = rng.choice([0, 0, 0, 1, 1, 2, 3, 5])
        s = []
        for _ in range(k):
            s += draw_bytes(rng, rng.choice(REJECT_EDGES) if rng.random() < 0.5 else rng.randrange(1000000, 1 << 20))
        s += draw_bytes(rng, rng.choice(ACCEPT_EDGES) if rng.random() < 0.5 else rng.randrange(1000000))
        s += [rng.randrange(256) for _ in range(rng.choice([0, 0, 1, 2, 3, 4]))]
        res.count("stream:structured(rejects=%d)" % min(k, 3))
    elif r < 0.70:        # only the three bytes, all bits random (this is what the RNG delivers)
        s = [rng.randrange(256) for _ in range(3)]
        res.count("stream:3-random-bytes")
    elif r < 0.80:        # large values in all 24 bits
        s = [rng.choice([0xff, 0xfe, 0xf0, 0x80, rng.randrange(256)]) for _ in range(3)]
        res.count("stream:high-bits")
    elif r < 0.90:        # malformed: the stream ends while the code still needs bytes
        k = rng.randrange(0, 3)
        s = []
        for _ in range(k):
            s += draw_bytes(rng, rng.randrange(1000000, 1 << 20))
        s += [rng.randrange(256) for _ in range(rng.randrange(0, 3))]
        res.count("stream:exhausted")
    else:
        s = [rng.randrange(256) for _ in range(rng.randrange(0, 16))]
        res.count("stream:random-length")
    return s


def passkey_value(line):
    """(value, consumed) from '<hex16> <consumed>'; None for 'exhausted n'"""
    w = line.split()
    if len(w) != 2 or w[0] == "exhausted":
        return None
    return int.from_bytes(bytes.fromhex(w[0]), "little"), int(w[1])


def kv(line):
    return dict((k, int(v)) for k, v in (x.split("=") for x in line.split()))


def run_c38(ctx, replay_path=None):
    res = Result()
    res.rule = ("sessions = reset + `passkey <rng byte stream>` ops: create_passkey() of the real nRF52 toolbox with the emulated "
                "RNG delivering exactly these bytes, compared with the Lean model (returned array + number of RNG bytes consumed "
                "or `exhausted`); streams: structured (k rejected 20-bit draws, an accepted draw with boundary values 0/999999/"
                "1000000/2^20-1, unused tail), 3 random bytes, high bits set, prematurely ending, random length. Monitor "
                "(independent of the model): the little-endian value of every returned array is <= 999999; exhaustive scan of "
                "all 2^24 first draws b0 b1 b2 on the real code: no value > 999999 and all 10^6 passkeys equally often. "
                "Non-trivial = stream with a rejected draw, a boundary value or a value whose old-code reading exceeds 999999")
    rng = ctx.rng
    sessions = [ops for _, ops in ctx.corpus()]
    n_sessions = 400 if ctx.thorough else 60
    for _ in range(n_sessions):
        ops = ["reset"]
        for _ in range(rng.randrange(5, 40)):
            ops.append("passkey " + hx(gen_passkey_stream(rng, res)))
        sessions.append(ops)
    # scans compared with the model: all third bytes in the thorough tier, 12 of them in the quick one
    b2s = list(range(256)) if ctx.thorough else sorted(set([0x00, 0x0f, 0xff, 0xf0, 0x0e] + [rng.randrange(256) for _ in range(7)]))
    scan_ops = ["reset"] + ["passkeyscan %02x" % b for b in b2s] + ["passkeyhist"]
    sessions.append(scan_ops)
    impl, model, dis = ctx.run_pair(sessions)
    for d in dis:
        ops = sessions[d["session"]]
        # every op is independent of the ops before it (the toolbox has no state, the RNG script is
        # part of the op), so the minimal disagreeing sequence is the op itself
        res.disagreements.append(dict(d, ops=["reset", d["op"]], session_ops=len(ops)))

    def out_of_range(ops, outs, what_from):
        for k, (op, out) in enumerate(zip(ops, outs)):
            if op.startswith("passkey "):
                pv = passkey_value(out)
                if pv and pv[0] > 999999:
                    res.failures.append({"key": "C38:passkey-out-of-range",
                                         "what": "create_passkey() returned %d (> 999999) for the RNG bytes %s" % (pv[0], op.split()[1]),
                                         "ops": ["reset", op], "observed": out})
                    return
            elif op.startswith("passkeyscan"):
                st = kv(out)
                if st["outofrange"]:
                    res.failures.append({"key": "C38:passkey-out-of-range",
                                         "what": "%d of the 65536 RNG streams b0 b1 %s give a passkey > 999999" % (st["outofrange"], op.split()[1]),
                                         "ops": ["reset", op], "observed": out})
                    return

    for ops, r in zip(sessions, impl):
        res.sessions += 1
        res.evaluations += len(r["out"])
        if r["crash"]:
            res.failures.append({"key": "C38:crash:" + r["crash"].split(" @")[0], "what": r["crash"], "ops": ops})
        out_of_range(ops, r["out"], "pair")
        for op, out in zip(ops, r["out"]):
            if op.startswith("passkey "):
                stream = bytes.fromhex(op.split()[1]) if op.split()[1] != "-" else b""
                pv = passkey_value(out)
                res.count("result:" + ("passkey" if pv else "exhausted"))
                if pv and (pv[1] > 3 or pv[0] in (0, 999999) or int.from_bytes(stream[:3], "little") > 999999):
                    res.distinct.add(op)
                if pv and pv[1] > 3:
                    res.count("result:after-rejected-draw")
            elif op.startswith("passkeyscan"):
                res.evaluations += 65536
    # exhaustive scan of all first draws on the real code (both tiers); independent uniformity oracle
    full = ["reset"] + ["passkeyscan %02x" % b for b in range(256)] + ["passkeyhist"]
    if ctx.thorough:
        fr = impl[-1]
    else:
        fr = ctx.run_impl([full])[0]
        res.evaluations += 256 * 65536
        out_of_range(full, fr["out"], "scan")
    if fr["crash"] or len(fr["out"]) != len(full):
        res.failures.append({"key": "C38:crash:scan", "what": str(fr["crash"]), "ops": full})
    else:
        h = kv(fr["out"][-1])
        first = sum(kv(o)["first"] for o in fr["out"][1:-1])
        res.extra["exhaustive_first_draws"] = ("all 2^24 RNG triples on the real code: %d answered from the first draw, every passkey "
                                               "0..999999 produced by min=%d max=%d of them" % (first, h["min"], h["max"]))
        if h["min"] != h["max"] or h["min"] == 0:
            res.failures.append({"key": "C38:not-uniform",
                                 "what": "over all 2^24 first draws the passkeys 0..999999 are produced between %d and %d times" % (h["min"], h["max"]),
                                 "ops": full, "observed": fr["out"][-1]})
        res.exhaustive = True
    res.samples = [" ; ".join(s[:6]) for s in sessions[:3]]
    return res


PROPS = {
    "C37": dict(
        imports=["BluetoeModel.Crypto.Props"],
        theorems=["BluetoeModel.Crypto." + t for t in (
            "subkeys_eq_rfc4493", "c1_eq_spec", "s1_eq_spec", "f4_eq_spec", "f5key_eq_spec", "f5cmac_eq_spec", "f5_eq_spec",
            "f6_eq_spec", "g2_eq_spec", "reverse_leftShift", "valid_public_key_spec", "zero_public_key_rejected",
            "f4_eq_spec_aes")],
        run=run_c37,
        level="partial",
        technique="Lean 4 proof, for every block cipher E and all inputs, that the model of the toolbox's byte-reversed block "
                  "chains equals RFC 4493 AES-CMAC / Core Vol 3 Part H 2.2 over E + differential correspondence of the real nRF52 "
                  "toolbox (host build over emulated NRF_ECB) with the model over a Lean AES-128 + independent Python oracle and "
                  "published sample data",
        level_text="c1_eq_spec, s1_eq_spec, f4_eq_spec, f5_eq_spec, f6_eq_spec, g2_eq_spec, subkeys_eq_rfc4493: for every block "
                   "cipher E with 16-byte output and every input of the declared sizes, the byte-reversed result of the toolbox model "
                   "equals the specification function (RFC 4493 CMAC for arbitrary message length, left shift specified as doubling "
                   "of the 128-bit number) applied to the byte-reversed arguments, and no buffer read/write of the model is out of "
                   "bounds. valid_public_key_spec: the model of is_valid_public_key accepts exactly the affine P-256 points with "
                   "reduced coordinates. Partial: AES itself (hardware; tests/test_tools/aes.c in the harness, a Lean AES in the "
                   "driver) and the uECC P-256 arithmetic are modelled, not verified - they are tied by the correspondence check, "
                   "the Python oracle and the specifications' sample data only.",
        level_note="Trusted: Lean kernel; hand-written model = code as far as sampled; AES hardware emulated by tiny-AES; uECC modelled "
                   "by the curve predicate; my transcription of RFC 4493 / Core Vol 3 Part H into Spec.lean (checked against the "
                   "published sample vectors through the driver).",
        design_ref="§5 C37",
        assumptions=["NRF_ECB computes AES-128 on {key, cleartext, ciphertext} at ECBDATAPTR (emulated by tests/test_tools/aes.c)",
                     "uECC_valid_public_key is modelled by the curve predicate (tied by correspondence only)",
                     "c1 is given p1, p2 as formed by the security manager (their construction is outside the toolbox)"],
    ),
    "C38": dict(
        imports=["BluetoeModel.Crypto.PasskeyProps"],
        theorems=["BluetoeModel.Crypto.Passkey.passkey_lt_million",
                  "BluetoeModel.Crypto.Passkey.passkey_range_fixed",
                  "BluetoeModel.Crypto.Passkey.passkey_consumes_draws",
                  "BluetoeModel.Crypto.Passkey.passkey_exhausted_iff",
                  "BluetoeModel.Crypto.Passkey.passkey_terminates",
                  "BluetoeModel.Crypto.Passkey.draw_eq_iff",
                  "BluetoeModel.Crypto.Passkey.retarget_length",
                  "BluetoeModel.Crypto.Passkey.retarget_value",
                  "BluetoeModel.Crypto.Passkey.retarget_inverse"],
        witnesses=["BluetoeModel.Crypto.Passkey.passkey_old_witness"],
        run=run_c38,
        level="proof",
        technique="Lean 4 proof over all RNG byte streams (range, termination characterisation, uniformity by an explicit "
                  "stream bijection) about a model of the fixed create_passkey + differential correspondence with the real "
                  "nRF52 toolbox over an emulated RNG register + exhaustive scan of all 2^24 first draws on the real code",
        level_text="passkey_lt_million: for every RNG byte stream the returned 128-bit array has value <= 999999. "
                   "passkey_exhausted_iff / passkey_terminates: the rejection loop ends exactly when some complete 3-byte draw of the "
                   "stream is accepted (1 000 000 of 1 048 576 values). draw_eq_iff + retarget_*: each 20-bit value has exactly 16 "
                   "byte-triple pre-images and for any two passkeys v, w there is a length- and rest-preserving bijection between the "
                   "streams yielding v and those yielding w, i.e. uniform under i.i.d. uniform RNG bytes. The code at 193dfc0 returned "
                   "the three RNG bytes unchanged (passkey_old_witness: ff ff ff -> 16777215); fixed by fixes/crypto-01-passkey-range.patch.",
        level_note="Trusted: Lean kernel; the model equals the code as far as the differential check samples it (plus the exhaustive "
                   "first-draw scan); the hardware RNG is assumed to deliver independent uniformly distributed bytes (the probability "
                   "statement itself is not formalised, only the counting argument behind it).",
        design_ref="§5 C38",
        assumptions=["NRF_RNG delivers independent, uniformly distributed bytes",
                     "a passkey is the little-endian value of the returned uint128_t (as used by security_manager.hpp as TK)"],
    ),
}
