"""C11, C12, C13 — outgoing notification queue (bluetoe/notification_queue.hpp)"""
import re

from vlib.core import Result

NAME = "notifq"
LEAN_MODULE = "BluetoeModel.NotifQueue"
DRIVER = "drv_notifq"
EXTRA_DRIVERS = []
LEAN_DIRS = ["BluetoeModel/NotifQueue", "Driver/NotifQueue"]
HARNESS_DESC = "harness/notifq.cpp (real notification_queue<tuple<integral_constant<int,N>...>, Mixin>)"
HARNESS = {
    "default": dict(src="harness/notifq.cpp", ldflags=["-pthread"]),
    # no optimiser, no sanitizer: every C++ memory access is its own instruction (C13 granularity)
    "o0": dict(src="harness/notifq.cpp", flags=["-O0", "-g", "-w"], ldflags=["-pthread"]),
    "att": dict(src="harness/attnotify.cpp"),
}

CONFIGS = [[1], [2], [5], [1, 1], [1, 3], [3, 1], [4, 4, 1], [1, 2]]


# ---------------------------------------------------------------------------------------------
# independent oracle: the property statements evaluated on a Python set of pending requests
# ---------------------------------------------------------------------------------------------
class Oracle:
    """set of pending (index, kind) requests; knows nothing about bits, bytes or cursors"""

    def __init__(self, cfg):
        self.cfg = cfg
        self.total = sum(cfg)
        self.level = []
        for lv, n in enumerate(cfg):
            self.level += [lv] * n
        self.pending = set()
        self.awaiting = False          # an indication was sent and is not yet confirmed
        self.wait = {}                 # request -> [others served at its level while eligible, own-char?]

    def eligible(self, r):
        return r[1] == "n" or not self.awaiting

    def step(self, op, out, pid):
        """returns None or (key, what)"""
        w = op.split()
        if w[0] in ("qn", "qi"):
            i, k = int(w[1]), w[0][1]
            exp = "1" if (i < self.total and (i, k) not in self.pending) else "0"
            if out != exp:
                return ("%s:not-a-set:queue" % pid,
                        "`%s` answered %s although the request was %spending" % (op, out, "" if exp == "0" else "not "))
            if i < self.total and (i, k) not in self.pending:
                self.pending.add((i, k))
                self.wait[(i, k)] = [0, False]
        elif w[0] == "deq":
            if out == "e":
                el = sorted(r for r in self.pending if self.eligible(r))
                if el:
                    kind = "notification" if any(r[1] == "n" for r in el) else "indication"
                    return ("%s:pending-%s-not-dequeued" % (pid, kind), "dequeue returned empty although %s is pending and may be sent" % (el,))
                return None
            m = re.match(r"^([ni])(\d+)$", out)
            if not m:
                return ("%s:bad-output" % pid, "dequeue returned %r" % out)
            r = (int(m.group(2)), m.group(1))
            if r not in self.pending:
                return ("%s:dequeued-not-pending" % pid, "dequeue returned %s which is not pending (lost earlier or duplicated)" % out)
            if r[1] == "i" and self.awaiting:
                return ("%s:second-indication-before-confirmation" % pid, "indication %s sent while a confirmation is outstanding" % out)
            lv = self.level[r[0]]
            higher = sorted(x for x in self.pending if self.level[x[0]] < lv and self.eligible(x))
            if higher:
                return ("%s:priority-inversion" % pid, "dequeue returned %s although higher priority %s is pending" % (out, higher))
            hit = None
            for x in self.pending:
                if x != r and self.level[x[0]] == lv and self.eligible(x):
                    self.wait[x][0] += 1
                    if x[0] == r[0]:
                        self.wait[x][1] = True
                    if self.wait[x][0] > self.cfg[lv] - 1 and hit is None:
                        if x[1] == "n" and self.wait[x][1]:
                            hit = ("%s:notification-waits-behind-own-indication" % pid,
                                   "notification %d was passed over for the indication of the same characteristic; %d other requests of its %d-entry level served first"
                                   % (x[0], self.wait[x][0], self.cfg[lv]))
                        else:
                            hit = ("%s:unfair" % pid, "request %s waited for %d other requests of its %d-entry level" % (x, self.wait[x][0], self.cfg[lv]))
            self.pending.discard(r)
            self.wait.pop(r, None)
            if r[1] == "i":
                self.awaiting = True
                for x in self.pending:
                    if x[1] == "i":
                        self.wait[x] = [0, False]
            return hit
        elif w[0] == "conf":
            self.awaiting = False
        elif w[0] == "clear":
            self.pending, self.awaiting, self.wait = set(), False, {}
        return None


def gen_session(rng, cfg_index, length, drain=True):
    cfg = CONFIGS[cfg_index]
    total = sum(cfg)
    ops = ["reset %d" % cfg_index]
    # a few characteristics are "hot" so that double requests / both kinds on one entry are frequent
    hot = [rng.randrange(total) for _ in range(2)]
    pconf = rng.choice([0.05, 0.15, 0.3])
    for _ in range(length):
        r = rng.random()
        i = rng.choice(hot) if rng.random() < 0.5 else rng.randrange(total)
        if rng.random() < 0.03:
            i = total + rng.randrange(3)          # out of range: answered `false` by the empty tuple base
        if r < 0.25:
            ops.append("qn %d" % i)
        elif r < 0.50:
            ops.append("qi %d" % i)
        elif r < 0.85 - pconf:
            ops.append("deq")
        elif r < 0.85:
            ops.append("conf")
        elif r < 0.87:
            ops.append("clear")
        else:
            ops.append("deq")
    if drain:
        for _ in range(2 * total + 2):
            ops += ["conf", "deq"]
    return ops


def enumerate_small(cfg_index, depth):
    total = sum(CONFIGS[cfg_index])
    alphabet = ["deq", "conf"] + ["%s %d" % (o, i) for o in ("qn", "qi") for i in range(total)]
    seqs = [[]]
    for _ in range(depth):
        seqs = [s + [x] for s in seqs for x in alphabet]
    return [["reset %d" % cfg_index] + s for s in seqs]


def cfg_of(ops):
    return CONFIGS[int(ops[0].split()[1])]


def monitor(ops, outs, pid):
    """first failure per key in this session: list of (k, key, what)"""
    o = Oracle(cfg_of(ops))
    hits, seen = [], set()
    for k, (op, out) in enumerate(zip(ops, outs)):
        if k == 0:
            continue
        h = o.step(op, out, pid)
        if h and h[0] not in seen:
            seen.add(h[0])
            hits.append((k, h[0], h[1]))
            if "waits-behind-own" not in h[0]:
                break                  # the oracle's state is no longer meaningful
    return hits, o


def run_queue(ctx, pid, want_keys):
    """shared by C11 and C12: same sessions, same correspondence; the monitor hits are filtered by
    the property they belong to"""
    res = Result()
    sessions = [ops for _, ops in ctx.corpus()]
    n = 3000 if ctx.thorough else 400
    for i in range(n):
        sessions.append(gen_session(ctx.rng, i % len(CONFIGS), ctx.rng.randrange(4, 60)))
    if ctx.thorough:
        sessions += enumerate_small(0, 6) + enumerate_small(1, 5) + enumerate_small(7, 4)
        res.extra["exhaustive_small_scope"] = "all op sequences over qn/qi/deq/conf: [1] length 6, [2] length 5, [1,2] length 4"
    impl, model, dis = ctx.run_pair(sessions)
    for d in dis:
        ops = ctx.shrink_disagreement(sessions[d["session"]]) if len(res.disagreements) < 2 else sessions[d["session"]]
        res.disagreements.append(dict(d, ops=ops))
    for ops, r in zip(sessions, impl):
        res.evaluations += len(r["out"])
        res.sessions += 1
        res.count("cfg " + str(cfg_of(ops)))
        for o in ops[1:]:
            res.count(o.split()[0])
        outs = r["out"]
        if r["crash"]:
            res.failures.append({"key": "%s:crash:%s" % (pid, r["crash"].split(" @")[0]), "what": r["crash"], "ops": ops})
            continue
        hits, orc = monitor(ops, outs, pid)
        for k, key, what in hits:
            if want_keys(key):
                res.failures.append({"key": key, "what": "op %d `%s`: %s" % (k, ops[k], what), "ops": ops[:k + 1]})
        if not hits and orc.pending and ops[-1] == "deq" and ops[-2] == "conf" and want_keys(pid + ":never-transmitted"):
            res.failures.append({"key": pid + ":never-transmitted", "what": "after %d rounds of conf;deq still pending: %s" % (orc.total * 2 + 2, sorted(orc.pending)), "ops": ops})
        refused = sum(1 for o, x in zip(ops, outs) if o[0] == "q" and x == "0")
        blocked = any(o == "deq" and x == "e" for o, x in zip(ops, outs))
        inds = sum(1 for x in outs if x.startswith("i") and x[1:].isdigit())
        res.count("sessions_with_refused_request", refused > 0)
        res.count("sessions_with_indication", inds > 0)
        if refused or inds:
            res.distinct.add(hash(tuple(ops)))
    res.samples = [" ; ".join(s[:16]) for s in sessions[:3]]
    return res


C12_KEYS = ("not-a-set", "pending-notification-not-dequeued", "dequeued-not-pending", "priority-inversion", "unfair",
            "notification-waits-behind-own-indication", "bad-output", "crash")
C11_KEYS = ("second-indication-before-confirmation", "pending-notification-not-dequeued", "pending-indication-not-dequeued",
            "never-transmitted", "dequeued-not-pending", "crash")

RULE = ("sessions = reset <partition> ([1] [2] [5] [1,1] [1,3] [3,1] [4,4,1] [1,2]) + random queue_notification / queue_indication "
        "(two hot characteristics, 3% out-of-range indices) / dequeue / indication_confirmed / clear, followed by a conf;deq drain; "
        "every session runs on the real notification_queue<> and on the Lean model, outputs compared line by line, and is judged "
        "by a Python oracle that only knows a set of pending (characteristic, kind) requests; non-trivial = contains a refused "
        "(already pending) request or an indication; distinct = distinct op sequences")


def run_c12(ctx, replay_path=None):
    res = run_queue(ctx, "C12", lambda key: any(key == "C12:" + k or key.startswith("C12:" + k) for k in C12_KEYS))
    res.rule = RULE
    return res


def run_c11(ctx, replay_path=None):
    res = run_queue(ctx, "C11", lambda key: any(key == "C11:" + k or key.startswith("C11:" + k) for k in C11_KEYS))
    res.rule = RULE + "; C11 part of the oracle: no indication between an indication and the next confirmation/clear, a pending notification is always dequeued, after the drain nothing accepted is left"
    return res


PROPS = {
    "C12": dict(
        theorems=[],
        witnesses=[],
        run=run_c12,
        harness_keys=["default"],
        level="proof",
        design_ref="§5 C12",
    ),
    "C11": dict(
        theorems=[],
        witnesses=[],
        run=run_c11,
        harness_keys=["default"],
        level="proof",
        design_ref="§5 C11",
    ),
}
