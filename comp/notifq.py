"""C11, C12, C13 — outgoing notification queue (bluetoe/notification_queue.hpp)"""
import os
import re

from vlib.core import Result, LEAN_DIR
from comp import attnotify as _attnotify

NAME = "notifq"
LEAN_MODULE = "BluetoeModel.NotifQueue"
DRIVER = "drv_notifq"
EXTRA_DRIVERS = ["drv_attnotify"]      # C11 also runs server level sessions on the AttNotify model
LEAN_DIRS = ["BluetoeModel/NotifQueue", "Driver/NotifQueue", "BluetoeModel/AttNotify"]
HARNESS_DESC = "harness/notifq.cpp (real notification_queue<tuple<integral_constant<int,N>...>, Mixin>)"
HARNESS = {
    "default": dict(src="harness/notifq.cpp", ldflags=["-pthread"]),
    # no optimiser, no sanitizer: every C++ memory access is its own instruction (C13 granularity)
    "o0": dict(src="harness/notifq_o0.cpp", flags=["-O0", "-g", "-w"], ldflags=["-pthread"]),
    "att": dict(_attnotify.HARNESS),      # the real server<>::l2cap_output (same binary as C10's harness)
}

CONFIGS = [[1], [2], [5], [1, 1], [1, 3], [3, 1], [4, 4, 1], [1, 2]]


# ---------------------------------------------------------------------------------------------
# independent oracle: the property statements evaluated on a Python set of pending requests
# ---------------------------------------------------------------------------------------------
class Oracle:
    """set of pending (index, kind) requests; knows nothing about bits, bytes or cursors"""

    def __init__(self, cfg):
        self.cfg = cfg
        self.total = sum(cfg)
        self.level = []
        for lv, n in enumerate(cfg):
            self.level += [lv] * n
        self.pending = set()
        self.awaiting = False          # an indication was sent and is not yet confirmed
        self.wait = {}                 # request -> [others served at its level while eligible, own-char?]
        self.passed = {}               # indication -> indications of its level dequeued since it was queued

    def eligible(self, r):
        return r[1] == "n" or not self.awaiting

    def step(self, op, out, pid):
        """returns None or (key, what)"""
        w = op.split()
        if w[0] in ("qn", "qi"):
            i, k = int(w[1]), w[0][1]
            exp = "1" if (i < self.total and (i, k) not in self.pending) else "0"
            if out != exp:
                return ("%s:not-a-set:queue" % pid,
                        "`%s` answered %s although the request was %spending" % (op, out, "" if exp == "0" else "not "))
            if i < self.total and (i, k) not in self.pending:
                self.pending.add((i, k))
                self.wait[(i, k)] = [0, False]
                self.passed[(i, k)] = 0
        elif w[0] == "deq":
            if out == "e":
                el = sorted(r for r in self.pending if self.eligible(r))
                if el:
                    kind = "notification" if any(r[1] == "n" for r in el) else "indication"
                    return ("%s:pending-%s-not-dequeued" % (pid, kind), "dequeue returned empty although %s is pending and may be sent" % (el,))
                return None
            m = re.match(r"^([ni])(\d+)$", out)
            if not m:
                return ("%s:bad-output" % pid, "dequeue returned %r" % out)
            r = (int(m.group(2)), m.group(1))
            if r not in self.pending:
                return ("%s:dequeued-not-pending" % pid, "dequeue returned %s which is not pending (lost earlier or duplicated)" % out)
            if r[1] == "i" and self.awaiting:
                return ("%s:second-indication-before-confirmation" % pid, "indication %s sent while a confirmation is outstanding" % out)
            lv = self.level[r[0]]
            higher = sorted(x for x in self.pending if self.level[x[0]] < lv and self.eligible(x))
            if higher:
                return ("%s:priority-inversion" % pid, "dequeue returned %s although higher priority %s is pending" % (out, higher))
            hit = None
            for x in self.pending:
                if x != r and self.level[x[0]] == lv and self.eligible(x):
                    self.wait[x][0] += 1
                    if x[0] == r[0]:
                        self.wait[x][1] = True
                    if self.wait[x][0] > self.cfg[lv] - 1 and hit is None:
                        if x[1] == "n" and self.wait[x][1]:
                            hit = ("%s:notification-waits-behind-own-indication" % pid,
                                   "notification %d was passed over for the indication of the same characteristic; %d other requests of its %d-entry level served first"
                                   % (x[0], self.wait[x][0], self.cfg[lv]))
                        else:
                            hit = ("%s:unfair" % pid, "request %s waited for %d other requests of its %d-entry level" % (x, self.wait[x][0], self.cfg[lv]))
            # bounded response (Lean: bounded_response / overtake_of_indication): without an overtaking
            # dequeue at most size-1 requests of its level are served before a pending indication; only
            # the indications are counted here (notifications may continue while a confirmation is awaited)
            for x in sorted(self.pending):
                if r[1] == "i" and x != r and x[1] == "i" and self.level[x[0]] == lv:
                    self.passed[x] = self.passed.get(x, 0) + 1
                    if self.passed[x] > self.cfg[lv] - 1 and hit is None:
                        hit = ("%s:indication-overtaken-while-unconfirmed" % pid,
                               "indication %d is still pending after %d other indications of its %d-entry level were dequeued: the cursor skipped it while a confirmation was outstanding"
                               % (x[0], self.passed[x], self.cfg[lv]))
            self.pending.discard(r)
            self.wait.pop(r, None)
            self.passed.pop(r, None)
            if r[1] == "i":
                self.awaiting = True
                for x in self.pending:
                    if x[1] == "i":
                        self.wait[x] = [0, False]
            return hit
        elif w[0] == "conf":
            self.awaiting = False
        elif w[0] == "confpdu":
            # a Handle Value Confirmation is exactly the opcode; anything longer must be rejected
            # with Error Response / Invalid PDU and must not confirm
            if len(w[1]) == 2:
                self.awaiting = False
                if out != "-":
                    return ("%s:confirmation-answered" % pid, "`%s` answered %s" % (op, out))
            elif out != "011e000004":
                return ("%s:bad-length-confirmation-not-rejected" % pid, "`%s` answered %s instead of Error Response 0x04" % (op, out))
        elif w[0] == "clear":
            self.pending, self.awaiting, self.wait, self.passed = set(), False, {}, {}
        return None


def gen_session(rng, cfg_index, length, drain=True):
    cfg = CONFIGS[cfg_index]
    total = sum(cfg)
    ops = ["reset %d" % cfg_index]
    # a few characteristics are "hot" so that double requests / both kinds on one entry are frequent
    hot = [rng.randrange(total) for _ in range(2)]
    pconf = rng.choice([0.05, 0.15, 0.3])
    for _ in range(length):
        r = rng.random()
        i = rng.choice(hot) if rng.random() < 0.5 else rng.randrange(total)
        if rng.random() < 0.03:
            i = total + rng.randrange(3)          # out of range: answered `false` by the empty tuple base
        if r < 0.25:
            ops.append("qn %d" % i)
        elif r < 0.50:
            ops.append("qi %d" % i)
        elif r < 0.85 - pconf:
            ops.append("deq")
        elif r < 0.85:
            x = rng.random()
            ops.append("conf" if x < 0.5 else "confpdu 1e" if x < 0.75 else "confpdu 1e" + "".join(rng.choice(["00", "1e", "ff", "01"]) for _ in range(rng.randrange(1, 4))))
        elif r < 0.87:
            ops.append("clear")
        else:
            ops.append("deq")
    if drain:
        for _ in range(2 * total + 2):
            ops += ["conf", "deq"]
    return ops


def enumerate_small(cfg_index, depth):
    total = sum(CONFIGS[cfg_index])
    alphabet = ["deq", "conf"] + ["%s %d" % (o, i) for o in ("qn", "qi") for i in range(total)]
    seqs = [[]]
    for _ in range(depth):
        seqs = [s + [x] for s in seqs for x in alphabet]
    return [["reset %d" % cfg_index] + s for s in seqs]


def cfg_of(ops):
    return CONFIGS[int(ops[0].split()[1])]


def monitor(ops, outs, pid):
    """first failure per key in this session: list of (k, key, what)"""
    o = Oracle(cfg_of(ops))
    hits, seen = [], set()
    for k, (op, out) in enumerate(zip(ops, outs)):
        if k == 0:
            continue
        h = o.step(op, out, pid)
        if h and h[0] not in seen:
            seen.add(h[0])
            hits.append((k, h[0], h[1]))
            if "waits-behind-own" not in h[0] and "indication-overtaken" not in h[0]:
                break                  # the oracle's state is no longer meaningful
    return hits, o


def run_queue(ctx, pid, want_keys):
    """shared by C11 and C12: same sessions, same correspondence; the monitor hits are filtered by
    the property they belong to"""
    res = Result()
    sessions = [ops for _, ops in ctx.corpus()]
    n = 3000 if ctx.thorough else 400
    for i in range(n):
        sessions.append(gen_session(ctx.rng, i % len(CONFIGS), ctx.rng.randrange(4, 60)))
    if ctx.thorough:
        sessions += enumerate_small(0, 6) + enumerate_small(1, 5) + enumerate_small(7, 4)
        res.extra["exhaustive_small_scope"] = "all op sequences over qn/qi/deq/conf: [1] length 6, [2] length 5, [1,2] length 4"
    impl, model, dis = ctx.run_pair(sessions)
    for d in dis:
        ops = sessions[d["session"]][:d["op_index"] + 1]
        if not res.disagreements:
            ops = ctx.shrink(ops, lambda cand: bool(ctx.run_pair([cand])[2]), budget=40)
        res.disagreements.append(dict(d, ops=ops))
    for ops, r in zip(sessions, impl):
        res.evaluations += len(r["out"])
        res.sessions += 1
        res.count("cfg " + str(cfg_of(ops)))
        for o in ops[1:]:
            res.count(o.split()[0])
        outs = r["out"]
        if r["crash"]:
            res.failures.append({"key": "%s:crash:%s" % (pid, r["crash"].split(" @")[0]), "what": r["crash"], "ops": ops})
            continue
        hits, orc = monitor(ops, outs, pid)
        for k, key, what in hits:
            if want_keys(key):
                res.failures.append({"key": key, "what": "op %d `%s`: %s" % (k, ops[k], what), "ops": ops[:k + 1]})
        tail = ["conf", "deq"] * (2 * orc.total + 2)
        drained = len(ops) > len(tail) and ops[-len(tail):] == tail          # (the enumerated sessions have no drain phase)
        if not hits and orc.pending and drained and want_keys(pid + ":never-transmitted"):
            res.failures.append({"key": pid + ":never-transmitted", "what": "after %d rounds of conf;deq still pending: %s" % (orc.total * 2 + 2, sorted(orc.pending)), "ops": ops})
        refused = sum(1 for o, x in zip(ops, outs) if o[0] == "q" and x == "0")
        blocked = any(o == "deq" and x == "e" for o, x in zip(ops, outs))
        inds = sum(1 for x in outs if x.startswith("i") and x[1:].isdigit())
        res.count("sessions_with_refused_request", refused > 0)
        res.count("sessions_with_indication", inds > 0)
        if refused or inds:
            res.distinct.add(hash(tuple(ops)))
    res.samples = [" ; ".join(s[:16]) for s in sessions[:3]]
    return res


C12_KEYS = ("not-a-set", "pending-notification-not-dequeued", "dequeued-not-pending", "priority-inversion", "unfair",
            "notification-waits-behind-own-indication", "bad-output", "crash")
C11_KEYS = ("indication-overtaken-while-unconfirmed", "bad-length-confirmation-not-rejected", "confirmation-answered", "second-indication-before-confirmation", "pending-notification-not-dequeued", "pending-indication-not-dequeued",
            "never-transmitted", "dequeued-not-pending", "crash")

RULE = ("sessions = reset <partition> ([1] [2] [5] [1,1] [1,3] [3,1] [4,4,1] [1,2]) + random queue_notification / queue_indication "
        "(two hot characteristics, 3% out-of-range indices) / dequeue / indication_confirmed / clear, followed by a conf;deq drain; "
        "every session runs on the real notification_queue<> and on the Lean model, outputs compared line by line, and is judged "
        "by a Python oracle that only knows a set of pending (characteristic, kind) requests; non-trivial = contains a refused "
        "(already pending) request or an indication; distinct = distinct op sequences")


def run_c12(ctx, replay_path=None):
    res = run_queue(ctx, "C12", lambda key: any(key == "C12:" + k or key.startswith("C12:" + k) for k in C12_KEYS))
    res.rule = RULE
    return res


def run_c11(ctx, replay_path=None):
    res = run_queue(ctx, "C11", lambda key: any(key == "C11:" + k or key.startswith("C11:" + k) for k in C11_KEYS))
    res.rule = RULE + ("; C11 part of the oracle: no indication between an indication and the next confirmation/clear, a pending notification is always dequeued, after the drain nothing accepted is left"
                       "; plus server level sessions through the real server<>::l2cap_output (harness/attnotify.cpp, comp/attnotify.py c11_sessions): an indication that is "
                       "dequeued but not transmitted (not subscribed / not readable / buffer < 3) must not block later indications, an unsent notification must not confirm a "
                       "transmitted indication; judged by the attnotify oracle and compared with the AttNotify model")
    _attnotify.run_c11_sessions(ctx, res, key="att", model_exe=os.path.join(LEAN_DIR, ".lake", "build", "bin", "drv_attnotify"))
    return res


def gen_c13_session(rng, cfg_index, n_irq):
    cfg = CONFIGS[cfg_index]
    total = sum(cfg)
    ops = ["reset %d" % cfg_index]
    for _ in range(rng.randrange(0, 8)):
        r = rng.random()
        i = rng.randrange(total)
        ops.append("qn %d" % i if r < 0.4 else "qi %d" % i if r < 0.75 else "deq" if r < 0.9 else "conf")
    ops.append("raw")
    for _ in range(n_irq):
        ops.append("irq %s %d" % (rng.choice(["qn", "qi"]), rng.randrange(total)))
        if rng.random() < 0.5:
            i = rng.randrange(total)
            ops.append(rng.choice(["qn %d" % i, "qi %d" % i, "deq", "conf"]))
    ops.append("raw")
    return ops


def byte_of(cfg, i):
    """(level, byte index) that holds the two request bits of characteristic i"""
    for lv, n in enumerate(cfg):
        if i < n:
            return (lv, i // 4)
        i -= n
    return None


def c13_monitor(ops, outs):
    """every outcome of every `irq` op against the set oracle: the multiset {dequeued} + drained must
    be (pending before) + (the producer's request if it was reported newly queued or was pending)"""
    cfg = cfg_of(ops)
    o = Oracle(cfg)
    hits = []
    for k, (op, out) in enumerate(zip(ops, outs)):
        w = op.split()
        if k == 0 or w[0] == "raw":
            continue
        if w[0] != "irq":
            h = o.step(op, out, "C13")
            if h is not None and "waits-behind-own" not in h[0] and "indication-overtaken" not in h[0]:      # fairness is C12's / C11's business
                hits.append((k, "C13:sequential-misbehaviour", "op `%s` answered %s: %s" % (op, out, h[1])))
                break
            continue
        if out == "unsupported":
            continue
        r = (int(w[2]), w[1][1])
        for oc in out.split():
            m = re.match(r"^p([01]):(e|[ni]\d+):(-|[ni\d,]+)$", oc)
            if not m:
                hits.append((k, "C13:bad-outcome", "outcome %r" % oc))
                continue
            got = [] if m.group(2) == "e" else [m.group(2)]
            got += [] if m.group(3) == "-" else m.group(3).split(",")
            got = [(int(x[1:]), x[0]) for x in got]
            # multiset semantics: a request reported newly queued counts once more (it may be the
            # re-request of what this very dequeue has just taken); a refused one was pending already
            want = {x: 1 for x in o.pending}
            if m.group(1) == "1":
                want[r] = want.get(r, 0) + 1
            elif r[0] < o.total and r not in o.pending:
                hits.append((k, "C13:refused-but-not-pending", "`%s`: outcome %s refuses a request that is not pending" % (op, oc)))
            lost = sorted(x for x in want for _ in range(want[x] - got.count(x)))
            dup = sorted(x for x in set(got) if got.count(x) > want.get(x, 0))
            deq = got[0] if m.group(2) != "e" else None
            if lost:
                same = deq is not None and all(byte_of(cfg, x[0]) == byte_of(cfg, deq[0]) for x in lost) and lost == [r] and m.group(1) == "1"
                key = "C13:lost-update:rmw-same-byte" if same else "C13:lost-request"
                hits.append((k, key, "`%s` interrupting dequeue (pending %s): outcome %s - request %s %s, neither dequeued nor pending afterwards"
                             % (op, sorted(o.pending), oc, lost, "was reported newly queued" if m.group(1) == "1" else "lost")))
            if dup:
                hits.append((k, "C13:duplicated-request", "`%s` interrupting dequeue (pending %s): outcome %s delivers %s twice / unrequested" % (op, sorted(o.pending), oc, dup)))
    return hits


def run_c13(ctx, replay_path=None):
    res = Result()
    res.rule = ("sessions = reset <partition> + random prefix + `irq <qn|qi> <i>` ops: the harness (built -O0, no sanitizer, so that "
                "every C++ memory access is one instruction) runs the real dequeue_indication_or_confirmation() once per instruction "
                "boundary k with a SIGTRAP single-step handler performing the real queue_notification/indication call at boundary k "
                "(an interrupt on the same core), and reports the set of distinct outcomes (producer result, dequeue result, what a "
                "conf;deq drain finds afterwards); the Lean small-step model enumerates its access points and must produce the same set; "
                "`raw` compares the private bytes/next_/outstanding. Each outcome is judged by the set oracle (nothing accepted may "
                "vanish, nothing may be delivered twice). distinct = distinct (state, producer) pairs with more than one outcome")
    sessions = [ops for _, ops in ctx.corpus()]
    n = 48 if ctx.thorough else 16
    for i in range(n):
        ci = [1, 0, 7, 3, 4, 5, 2, 6][i % 8] if ctx.thorough else [1, 0, 7, 3, 4, 5, 2, 0][i % 8]
        sessions.append(gen_c13_session(ctx.rng, ci, 2 if ci in (2, 6) else 4))

    def proj(op, line):
        return "stress" if op.startswith("stress") else line
    impl, model, dis = ctx.run_pair(sessions, proj, key="o0")
    for d in dis:
        res.disagreements.append(dict(d, ops=sessions[d["session"]][:d["op_index"] + 1]))
    multi = 0
    for ops, r in zip(sessions, impl):
        res.evaluations += len(r["out"])
        res.sessions += 1
        res.count("cfg " + str(cfg_of(ops)))
        if r["crash"]:
            res.failures.append({"key": "C13:crash:" + r["crash"].split(" @")[0], "what": r["crash"], "ops": ops})
            continue
        for op, out in zip(ops, r["out"]):
            if op.startswith("irq"):
                res.count("irq ops")
                res.count("irq outcomes", len(out.split()))
                if len(out.split()) > 1:
                    multi += 1
                    res.distinct.add(hash((tuple(ops[:ops.index(op)]), op)))
        for k, key, what in c13_monitor(ops, r["out"]):
            res.failures.append({"key": key, "what": "op %d: %s" % (k, what), "ops": ops[:k + 1]})
    # repaired granularity (model only): with an uninterruptible read-modify-write no outcome loses
    asess = [[op.replace("irq ", "irqatomic ") for op in ops if not op.startswith("raw")] for ops in sessions]
    mres = ctx.run_model(asess)
    bad = 0
    for ops, r in zip(asess, mres):
        for k, key, what in c13_monitor([o.replace("irqatomic", "irq") for o in ops], r["out"]):
            bad += 1
    res.extra["model_atomic_rmw_outcomes_with_loss"] = bad
    # finest granularity (Lean: fine_linearizable / fine_no_loss): producer = load + atomic RMW, consumer = loads +
    # atomic RMW, ALL schedules k1 <= k2; model only.  Must show no loss; the only anomaly allowed is the proved
    # stale answer (p0 although the request ends up queued again -> the set oracle calls it delivered twice);
    # the diagonal k1 = k2 must reproduce the outcomes of the interrupt model with atomic RMW.
    fsess = [[op.replace("irq ", "irqfine ") for op in ops if not op.startswith("raw")] for ops in sessions]
    dsess = [[op.replace("irq ", "irqfinediag ") for op in ops if not op.startswith("raw")] for ops in sessions]
    fres, dres = ctx.run_model(fsess), ctx.run_model(dsess)
    lost = stale = other = total = 0
    for ops, r in zip(fsess, fres):
        for k, key, what in c13_monitor([o.replace("irqfine", "irq") for o in ops], r["out"]):
            if "lost" in key:
                lost += 1
            elif key == "C13:duplicated-request" and re.search(r"outcome p0:", what):
                stale += 1
            else:
                other += 1
        total += sum(len(o.split()) for op, o in zip(ops, r["out"]) if op.startswith("irqfine"))
    diag_ok = all(a["out"] == d["out"] for a, d in zip(mres, dres))
    res.extra["model_fine_granularity_all_schedules"] = dict(outcomes=total, with_loss=lost, stale_answer_outcomes=stale,
                                                             other_anomalies=other, diagonal_equals_interrupt_model=diag_ok)
    if lost or other or not diag_ok:
        res.failures.append({"key": "C13:model-mismatch:fine-granularity", "what": "fine-granularity model: lost=%d other=%d diagonal_equals_interrupt_model=%s (contradicts fine_no_loss / the interrupt model)" % (lost, other, diag_ok), "ops": fsess[0]})
    # two real threads (second core): reported, never decides
    st = ctx.run_impl([["reset 1", "stress %d" % (2000000 if ctx.thorough else 300000)]], key="o0")[0]["out"]
    res.extra["two_thread_stress_nondeterministic"] = st[-1] if st else "n/a"
    res.samples = [" ; ".join(s[:14]) for s in sessions[:3]]
    return res


N = "BluetoeModel.NotifQueue."

PROPS = {
    "C12": dict(
        theorems=[N + "queue_refines_set", N + "single_level_same_as_generic", N + "never_out_of_bounds", N + "reachable_wf",
                  N + "newly_queued_iff_not_pending", N + "dequeue_exactly_once_in_priority_order",
                  N + "dequeue_empty_only_if_nothing_sendable", N + "round_robin_partial",
                  N + "pending_until_dequeued", N + "pending_until_dequeued_reachable", N + "bounded_response",
                  N + "response_bound", N + "notification_bounded_response", N + "overtake_of_notification"],
        witnesses=[N + "round_robin_witness", N + "starvation_witness"],
        technique="Lean 4 refinement proof (byte/bit level model of notification_queue refines a set-of-pending-requests specification for every priority partition and history) + differential correspondence with the real notification_queue<>",
        level_text="queue_refines_set: for every priority partition and every history the model of the C++ code (2 bits per characteristic in a byte array, round-robin cursor, single-entry specialisation, priority chain) answers exactly like a set of pending (characteristic, kind) requests; newly-queued/exactly-once/priority theorems are read off that specification. Fairness holds per characteristic (round_robin_partial); the full per-request statement is false (round_robin_witness: a notification waits behind the indication of its own characteristic), listed as known finding. Over whole histories: pending_until_dequeued (never silently dropped) and notification_bounded_response (a pending notification is dequeued within waitLv <= 2*(characteristics of higher levels) + (size of its level) dequeues in every history that does not clear, does not queue on a higher level and has no overtaking dequeue); overtake_of_notification shows that the only overtaking dequeue of a notification is the known finding (the sendable indication of the same characteristic).",
        level_note="Trusted: Lean kernel; the model equals the code as far as the differential check (random + small-scope exhaustive histories on 8 partitions) samples it.",
        assumptions=["all priority levels hold at least one characteristic (Size >= 1)"],
        run=run_c12,
        harness_keys=["default"],
        level="proof",
        design_ref="§5 C12",
    ),
    "C11": dict(
        theorems=[N + "one_outstanding", N + "notifications_continue", N + "indication_progress_partial",
                  N + "dequeue_exactly_once_in_priority_order", N + "queue_refines_set",
                  N + "bad_length_confirmation_rejected", N + "good_confirmation_confirms",
                  N + "pending_until_dequeued", N + "pending_until_dequeued_reachable", N + "bounded_response",
                  N + "response_bound", N + "indication_bounded_response", N + "overtake_of_indication",
                  N + "confirmed_dequeue_never_overtakes",
                  "BluetoeModel.AttNotify.unsent_indication_does_not_block", "BluetoeModel.AttNotify.indication_not_held_back",
                  "BluetoeModel.AttNotify.unsent_notification_keeps_outstanding", "BluetoeModel.AttNotify.at_most_one_outstanding"],
        imports=["BluetoeModel.NotifQueue.Props", "BluetoeModel.AttNotify.Props"],
        witnesses=[N + "indication_starvation_witness", "BluetoeModel.AttNotify.unsubscribed_indication_blocks_witness"],
        technique="Lean 4 invariant proof over all histories (trace predicate one_outstanding) on the refinement of C12 + differential correspondence",
        level_text="one_outstanding: in the output trace of every history on every partition no indication is dequeued between an indication and the next confirmation/clear; notifications_continue; pending_until_dequeued (a pending request stays pending until it is dequeued, every history without clear, every partition); indication_bounded_response: in every reachable state a pending indication of characteristic g is dequeued before the boundLv-th dequeue executed with no confirmation outstanding has completed (boundLv = 2*(characteristics of higher priority levels) + size of its level; exact measure waitLv = pending requests above + scan distance + 1), for every history that does not clear, does not queue on a higher priority level and contains no overtaking dequeue; overtake_of_indication: an overtaking dequeue only exists while a confirmation is outstanding and returns a notification of the same level (confirmed_dequeue_never_overtakes). Without that hypothesis the statement is false: indication_starvation_witness (known finding C11:indication-overtaken-while-unconfirmed). bad_length_confirmation_rejected / good_confirmation_confirms: model of server::handle_value_confirmation, tied to the real server by confpdu ops.",
        level_note="bounded response is proved on the specification and transferred to the implementation model by queue_refines_set; the excluded histories are exactly those with an overtaking dequeue (new known finding) or with requests on a higher priority level (by design).",
        run=run_c11,
        harness_keys=["default", "att"],
        level="proof",
        design_ref="§5 C11",
    ),
    "C13": dict(
        imports=["BluetoeModel.NotifQueue.IrqProps"],
        theorems=[N + "no_loss_if_atomic_producer_first", N + "no_loss_if_atomic_consumer_first",
                  N + "fine_linearizable", N + "fine_no_loss", N + "fchain_spec", N + "fscan_snapshot"],
        witnesses=[N + "lost_update_witness", N + "lost_update_witness_single", N + "witness_only_in_rmw",
                   N + "stale_result_witness"],
        run=run_c13,
        harness_keys=["o0"],
        level="proof",
        technique="Lean 4 small-step interleaving model (consumer dequeue at memory-access granularity, producer as interrupt): negation of the property proved by a concrete schedule; no-loss proved for mutually exclusive calls; tied to the real code by instruction-level interrupt injection (x86 single-step trap) on the real compiled queue",
        level_text="lost_update_witness: the property is false of the code (interrupt between load and store of remove()'s read-modify-write loses an accepted request of a characteristic sharing the byte). no_loss_if_atomic_*: with mutual exclusion both sequential orders keep an accepted request (all reachable states). fine_linearizable / fine_no_loss: if only the byte read-modify-writes of add/remove are atomic, then for EVERY interleaving at memory-access granularity (producer = load + RMW, consumer = loads + RMW; all k1 <= k2, every reachable state, every partition) the outcome is that of the set specification in one of the two sequential orders, except that the producer may answer false instead of true (stale_result_witness: its load saw the request the consumer then removed; nothing is lost, benign) - no request is lost. The harness replays every instruction boundary of the real dequeue with the real producer call as interrupt and finds the same outcome sets as the model, including the loss.",
        level_note="partial: atomicity of the target's byte RMW is outside the model; on the host the -O0 build is used so that access granularity = instruction granularity; the second-core case is covered by the witness (interrupt schedules are a subset) and a reported-only 2-thread stress run; the RMW-atomic granularity is proved on the Fine.lean model (fine_linearizable), whose diagonal k1 = k2 is compared in every run with the interrupt model (atomic := true) and whose schedules are all enumerated on the sessions' states (extra.model_fine_granularity_all_schedules); the real code has no atomic RMW, so that model is not compared with the code beyond the shared sequential functions.",
        design_ref="§5 C13",
        trusted=["x86-64 trap flag single stepping delivers SIGTRAP after every instruction of the traced call"],
    ),
}
