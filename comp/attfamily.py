"""Family of GATT server declarations shared by the `atthandles` (C04) and `attdisc` (C02, C03)
components.  One Python description per server is the single source for

  * the C++ server *type* in harness/atthandles/servers_gen.hpp (instantiated by both harnesses),
  * the declaration *value* (token string) handed to the Lean model drivers.

`python3 -m comp.attfamily` regenerates the header; the checks refuse to run when the committed
header is not what this file generates (so type and value cannot drift apart).

(The file name does not start with `_`, so vlib picks it up as a component module; it registers no
properties.)
"""
import os
import random

NAME = "attfamily"
PROPS = {}

VERIF = os.path.dirname(os.path.dirname(os.path.abspath(__file__)))
HEADER = os.path.join(VERIF, "harness", "atthandles", "servers_gen.hpp")


# ---------------------------------------------------------------------------------------------
# description language
# ---------------------------------------------------------------------------------------------
def U16(v):
    return ("16", v)


def U128(a, b, c, d, e):
    return ("128", a, b, c, d, e)


def uuid_bytes(u):
    if u[0] == "16":
        return bytes([u[1] & 0xff, u[1] >> 8])
    n = (u[1] << 96) | (u[2] << 80) | (u[3] << 64) | (u[4] << 48) | u[5]
    return n.to_bytes(16, "little")


def uuid_tok(u):
    return uuid_bytes(u).hex()


def ch(uuid, val=b"\x2a", read=True, write=True, notify=False, indicate=False, name=None, desc=None, fixed=None):
    """fixed: None | int (attribute_handle<h>) | (d, v, c) (attribute_handles<d,v,c>)"""
    assert len(val) in (1, 2, 4, 8)
    return dict(uuid=uuid, val=bytes(val), read=read, write=write, notify=notify, indicate=indicate,
                name=name, desc=desc, fixed=fixed)


def svc(uuid, chars=(), secondary=False, fixed=None, includes=()):
    return dict(uuid=uuid, chars=list(chars), secondary=secondary, fixed=fixed, includes=list(includes))


def char_props(c):
    return ((0x02 if c["read"] else 0) | (0x08 if c["write"] else 0) | (0x10 if c["notify"] else 0)
            | (0x20 if c["indicate"] else 0))


def char_nattrs(c):
    return 2 + (1 if c["notify"] or c["indicate"] else 0) + (1 if c["name"] is not None else 0) + (1 if c["desc"] else 0)


# ---------------------------------------------------------------------------------------------
# declaration value for the Lean drivers (flat token list, prefix grammar)
#   decl   := <nServices> service*
#   service:= svc <uuid> <secondary 0|1> <fixed|-> <nIncludes> <uuid>* <nChars> char*
#   char   := chr <uuid> <props> <-|a:H|t:D:V:C> <cccd 0|1> <name hex|none> <nDesc> (<uuid16> <hex>)* <readable 0|1> <value hex>
# ---------------------------------------------------------------------------------------------
def hx(b):
    return b.hex() if len(b) else "-"


def decl_tokens(server):
    t = [str(len(server))]
    for s in server:
        t += ["svc", uuid_tok(s["uuid"]), "1" if s["secondary"] else "0", "-" if s["fixed"] is None else str(s["fixed"]),
              str(len(s["includes"]))] + [uuid_tok(u) for u in s["includes"]] + [str(len(s["chars"]))]
        for c in s["chars"]:
            f = c["fixed"]
            ft = "-" if f is None else ("a:%d" % f if isinstance(f, int) else "t:%d:%d:%d" % f)
            t += ["chr", uuid_tok(c["uuid"]), str(char_props(c)), ft, "1" if (c["notify"] or c["indicate"]) else "0",
                  "none" if c["name"] is None else hx(c["name"].encode()),
                  "1" if c["desc"] else "0"]
            if c["desc"]:
                t += ["%04x" % c["desc"][0], hx(bytes(c["desc"][1]))]
            t += ["1" if c["read"] else "0", hx(c["val"])]
    return " ".join(t)


# ---------------------------------------------------------------------------------------------
# C++ emission
# ---------------------------------------------------------------------------------------------
def cpp_uuid(u, kind):
    if u[0] == "16":
        return "bluetoe::%s_uuid16< 0x%04X >" % (kind, u[1])
    return "bluetoe::%s_uuid< 0x%08X, 0x%04X, 0x%04X, 0x%04X, 0x%012X >" % ((kind,) + tuple(u[1:]))


CTYPE = {1: "std::uint8_t", 2: "std::uint16_t", 4: "std::uint32_t", 8: "std::uint64_t"}


def emit_server(k, server):
    pre, svcs = [], []
    n = 0
    for s in server:
        opts = [cpp_uuid(s["uuid"], "service")]
        if s["secondary"]:
            opts.append("bluetoe::is_secondary_service")
        if s["fixed"] is not None:
            opts.append("bluetoe::attribute_handle< 0x%04X >" % s["fixed"])
        for u in s["includes"]:
            opts.append("bluetoe::include_service< %s >" % cpp_uuid(u, "service"))
        for c in s["chars"]:
            co = [cpp_uuid(c["uuid"], "characteristic")]
            ty = CTYPE[len(c["val"])]
            pre.append("static %s v%d = 0x%xull;" % (ty, n, int.from_bytes(c["val"], "little")))
            co.append("bluetoe::bind_characteristic_value< %s, &v%d >" % (ty, n))
            if not c["read"]:
                co.append("bluetoe::no_read_access")
            if not c["write"]:
                co.append("bluetoe::no_write_access")
            if c["notify"]:
                co.append("bluetoe::notify")
            if c["indicate"]:
                co.append("bluetoe::indicate")
            if c["name"] is not None:
                pre.append('static constexpr char n%d[] = "%s";' % (n, c["name"]))
                co.append("bluetoe::characteristic_name< n%d >" % n)
            if c["desc"]:
                pre.append("static constexpr std::uint8_t d%d[] = { %s };" % (n, ", ".join("0x%02x" % b for b in c["desc"][1])))
                co.append("bluetoe::descriptor< 0x%04X, d%d, %d >" % (c["desc"][0], n, len(c["desc"][1])))
            f = c["fixed"]
            if isinstance(f, int):
                co.append("bluetoe::attribute_handle< 0x%04X >" % f)
            elif f is not None:
                co.append("bluetoe::attribute_handles< 0x%04X, 0x%04X, 0x%04X >" % f)
            opts.append("bluetoe::characteristic<\n                %s >" % ",\n                ".join(co))
            n += 1
        svcs.append("bluetoe::service<\n            %s >" % ",\n            ".join(opts))
    out = ["namespace s%d {" % k] + ["    " + p for p in pre]
    out.append("    typedef bluetoe::server<\n        bluetoe::no_gap_service_for_gatt_servers,\n        bluetoe::max_mtu_size< 300 >,\n        %s > type;"
               % ",\n        ".join(svcs))
    out.append('    static const char* const decl = "%s";' % decl_tokens(server))
    out.append("}")
    return "\n".join(out)


def header_text():
    fam = family()
    parts = ["// GENERATED by comp/attfamily.py -- do not edit; regenerate with `python3 -m comp.attfamily`",
             "#ifndef VERIF_ATT_SERVERS_GEN_HPP", "#define VERIF_ATT_SERVERS_GEN_HPP", ""]
    for k, (name, server) in enumerate(fam):
        parts.append("// S%d: %s" % (k, name))
        parts.append(emit_server(k, server))
        parts.append("")
    parts.append("#define VERIF_ATT_SERVER_COUNT %d" % len(fam))
    parts.append("#define VERIF_ATT_FOR_EACH_SERVER( X ) \\\n" + " \\\n".join("    X( %d, s%d::type, s%d::decl )" % (k, k, k) for k in range(len(fam))))
    parts += ["", "#endif", ""]
    return "\n".join(parts)


# ---------------------------------------------------------------------------------------------
# the family
# ---------------------------------------------------------------------------------------------
A = 0x8C8B4094
APE = lambda e: U128(A, 0x0DE2, 0x499F, 0xA28A, 0x4EED5BC73C00 + e)


def random_server(rng, with_fixed=True, with_secondary=True):
    """a random well-formed declaration without include_service"""
    server, h = [], 1
    for si in range(rng.randrange(1, 5)):
        fixed = None
        if with_fixed and rng.random() < 0.4:
            h += rng.randrange(0, 12)
            fixed = h
        suuid = U16(0x1800 + rng.randrange(0, 6)) if rng.random() < 0.6 else APE(0x10 * rng.randrange(1, 4))
        chars = []
        h += 1
        for ci in range(rng.randrange(0, 4)):
            cu = U16(0x2A00 + rng.randrange(0, 5)) if (rng.random() < 0.55) else APE(si * 16 + ci + 0x40)
            notify, indicate = rng.random() < 0.3, rng.random() < 0.15
            name = None if rng.random() < 0.7 else "n%d%d" % (si, ci)
            desc = None if rng.random() < 0.75 else (0x2904 + rng.randrange(0, 2), [rng.randrange(256) for _ in range(rng.randrange(1, 4))])
            val = bytes(rng.randrange(256) for _ in range(rng.choice([1, 1, 2, 4])))
            c = ch(cu, val, read=rng.random() < 0.9, write=rng.random() < 0.7, notify=notify, indicate=indicate, name=name, desc=desc)
            n = char_nattrs(c)
            r = rng.random()
            if with_fixed and r < 0.2:
                h += rng.randrange(0, 6)
                c["fixed"] = h
                h += n
            elif with_fixed and r < 0.4:
                d = h + rng.randrange(0, 4)
                v = d + rng.randrange(1, 4)
                if n == 2:
                    cc = rng.choice([0, v + rng.randrange(1, 3)])
                    h = v + 1
                else:
                    cc = rng.choice([0, v + rng.randrange(1, 4)])
                    h = (cc if cc else v + 1) + (n - 2)
                c["fixed"] = (d, v, cc)
            else:
                h += n
            chars.append(c)
        server.append(svc(suuid, chars, secondary=with_secondary and rng.random() < 0.3, fixed=fixed))
    # service uuids have to be distinct types only for include lookups; duplicates are fine otherwise
    return server


def family():
    f = []
    add = lambda name, s: f.append((name, s))
    add("one 128-bit service, one 128-bit characteristic",
        [svc(APE(0xA9), [ch(APE(0xAA), b"\x01\x02\x03\x04")])])
    add("three 128-bit characteristics",
        [svc(APE(0xA9), [ch(APE(0xAA), b"\x01"), ch(APE(0xAB), b"\x02"), ch(APE(0xAC), b"\x03")])])
    add("16-bit characteristic between 128-bit ones",
        [svc(APE(0xA9), [ch(APE(0xAA), b"\x01"), ch(U16(0x0815), b"\x02"), ch(APE(0xAC), b"\x03")])])
    add("service uuid sizes 128,16,128,16",
        [svc(APE(0xA0), [ch(APE(0xA1), b"\x01\x02")]), svc(U16(0x1816), [ch(U16(0x2A5B), b"\x05", notify=True), ch(U16(0x2A5C), b"\x06\x07", write=False)]),
         svc(APE(0xB0), [ch(APE(0xB1), b"\x08", indicate=True)]), svc(U16(0x180F), [ch(U16(0x2A19), b"\x64", write=False, notify=True)])])
    add("four equal 16-bit services (bicycles)",
        [svc(U16(0x1816), [ch(U16(0x2A5B), b"\x01", notify=True), ch(U16(0x2A5C), b"\x02\x00", write=False), ch(U16(0x2A55), b"\x03", indicate=True)]) for _ in range(4)])
    add("fixed service handles with gaps",
        [svc(U16(0x1801), [ch(U16(0x2A05), b"\x01")]), svc(U16(0x1816), [ch(U16(0x2A5B), b"\x02")], fixed=0x10),
         svc(U16(0x180F), [ch(U16(0x2A19), b"\x03")], fixed=0x20), svc(APE(0xC0), [ch(APE(0xC1), b"\x04")], fixed=0x30)])
    add("attribute_handles<> triples, user description, descriptor",
        [svc(U16(0x1815), [ch(U16(0x2A56), b"\x01", notify=True, fixed=(0x05, 0x08, 0x0B)),
                           ch(U16(0x2A57), b"\x02\x03", name="abc", fixed=(0x0E, 0x0F, 0)),
                           ch(APE(0xD1), b"\x04", notify=True, name="xy", desc=(0x2904, [1, 2, 3]), fixed=(0x20, 0x22, 0x25)),
                           ch(U16(0x2A58), b"\x05", fixed=(0x30, 0x31, 0x40))])])
    add("secondary before primary",
        [svc(U16(0x1234), [ch(U16(0x2A00), b"\x01")], secondary=True), svc(U16(0x1235), [ch(U16(0x2A01), b"\x02")])])
    add("primary, secondary, primary with fixed handle, secondary 128",
        [svc(U16(0x1800), [ch(U16(0x2A00), b"\x01")]), svc(U16(0x1234), [ch(U16(0x2A01), b"\x02")], secondary=True),
         svc(U16(0x1800), [ch(U16(0x2A02), b"\x03")], fixed=0x0100), svc(APE(0xE0), [], secondary=True), svc(APE(0xE1), [ch(APE(0xE2), b"\x05")])])
    add("include_service without characteristics in the including service",
        [svc(U16(0x1234), [ch(U16(0x2A00), b"\x01")], secondary=True), svc(U16(0x1235), [], includes=[U16(0x1234)])])
    add("include_service with a characteristic",
        [svc(U16(0x1235), [ch(U16(0x2A01), b"\x02")], includes=[U16(0x1234)]), svc(U16(0x1234), [ch(U16(0x2A00), b"\x01")], secondary=True),
         svc(U16(0x1236), [ch(U16(0x2A02), b"\x03")])])
    add("include_service (128-bit) with fixed handles",
        [svc(APE(0x10), [ch(U16(0x2A00), b"\x01")], secondary=True, fixed=0x10),
         svc(U16(0x1235), [ch(U16(0x2A01), b"\x02")], includes=[APE(0x10)], fixed=0x20)])
    add("five-attribute characteristic with attribute_handle<>",
        [svc(U16(0x1815), [ch(U16(0x2A56), b"\x01", notify=True, indicate=True, name="name", desc=(0x2905, [9]), fixed=0x0007),
                           ch(U16(0x2A57), b"\x02")])])
    add("unreadable characteristic value among readable ones of the same type",
        [svc(U16(0x1815), [ch(U16(0x2A56), b"\x01", read=False), ch(U16(0x2A56), b"\x02"), ch(U16(0x2A57), b"\x03", read=False)])])
    add("eight small services for MTU truncation",
        [svc(U16(0x1810 + (i % 3)), [ch(U16(0x2A10 + i), bytes([i]))]) for i in range(8)])
    add("services without characteristics, fixed and last",
        [svc(U16(0x1801)), svc(U16(0x1802), fixed=5), svc(U16(0x1803), [ch(U16(0x2A00), b"\x01")]), svc(U16(0x1804), fixed=0x40)])
    add("large handles near the top of the range",
        [svc(U16(0x1801), [ch(U16(0x2A00), b"\x01")], fixed=0x7FFF), svc(U16(0x1802), [ch(U16(0x2A01), b"\x02", notify=True, fixed=0xFFF0)], fixed=0xFF00)])
    add("same characteristic type with value sizes 1,2,1,4,1",
        [svc(U16(0x1815), [ch(U16(0x2A56), b"\x01"), ch(U16(0x2A56), b"\x02\x03")]),
         svc(U16(0x1816), [ch(U16(0x2A56), b"\x04"), ch(U16(0x2A56), b"\x05\x06\x07\x08"), ch(U16(0x2A56), b"\x09")])])
    add("attribute_handles<> with CCCD handle but no CCCD, and V+1 for a user description",
        [svc(U16(0x1815), [ch(U16(0x2A56), b"\x01", fixed=(3, 5, 9)), ch(U16(0x2A57), b"\x02", name="q", fixed=(10, 12, 0)),
                           ch(U16(0x2A58), b"\x03", indicate=True, desc=(0x2904, [7, 7]), fixed=(20, 21, 30))], fixed=2)])
    add("128-bit characteristic uuids that differ in one byte, secondary in between",
        [svc(APE(0x01), [ch(APE(0x02), b"\x01"), ch(APE(0x03), b"\x02\x02")]), svc(APE(0x04), [ch(APE(0x02), b"\x03")], secondary=True, fixed=0x21),
         svc(U16(0x1800), [ch(U16(0x2A00), b"\x04")])])
    rng = random.Random(20260922)
    for i in range(4):
        add("random declaration %d" % i, random_server(rng, with_fixed=i != 0, with_secondary=i % 2 == 0))
    return f


def check_header_current():
    try:
        cur = open(HEADER).read()
    except OSError:
        cur = None
    if cur != header_text():
        raise RuntimeError("harness/atthandles/servers_gen.hpp is not what comp/attfamily.py generates; run python3 -m comp.attfamily")


if __name__ == "__main__":
    os.makedirs(os.path.dirname(HEADER), exist_ok=True)
    with open(HEADER, "w") as fh:
        fh.write(header_text())
    print("wrote", HEADER, "with", len(family()), "servers")
