"""C14 — advertising / scan response data (bluetoe/server.hpp advertising_data, scan_response_data)"""
from vlib.core import Result

NAME = "advdata"
LEAN_MODULE = "BluetoeModel.AdvData"
DRIVER = "drv_advdata"
HARNESS_DESC = "harness/advdata.cpp (19 real server<> declarations, exactly sized output buffers)"
HARNESS = dict(src="harness/advdata.cpp")


def u128(s):
    """UUID::bytes of service_uuid< A, B, C, D, E >: the 16 octets, least significant first"""
    return bytes.fromhex(s.replace("-", ""))[::-1].hex()


UA = u128("111393DD-01D2-40D6-A0A0-E9B1A56A1191")
UB = u128("8C8B4094-0DE2-499F-A28A-4EED5BC73CA9")
UC = u128("7D295F4D-2850-4F57-B595-837F5753F8A9")
C5 = bytes([2, 1, 6, 1, 0xff]).hex()
C31 = bytes([2, 1, 6, 0x1b, 0xff] + list(range(1, 27))).hex()
C40 = bytes([2, 1, 6, 0x24, 0xff] + list(range(1, 36))).hex()
SCAN4 = bytes([3, 9, ord("a"), ord("b")]).hex()


def decl(name=None, app=0, adva=0, s16=(0x1234,), s128=(), gap=1, nolist=0, l16=None, l128=None, rng=None, cadv=None, cscan=None):
    return dict(name=name, app=app, adva=adva, s16=list(s16), s128=list(s128), gap=gap, nolist=nolist, l16=l16, l128=l128,
                range=rng, cadv=cadv, cscan=cscan)


# must mirror the typedefs S0..S18 of harness/advdata.cpp (the correspondence check compares the
# outputs for every buffer size, so a mismatch shows as a disagreement)
SERVERS = [
    decl(),
    decl(nolist=1),
    decl(nolist=1, name=b"Test Name"),
    decl(nolist=1, name=b"A very long device name of 40 characters"),
    decl(nolist=1, name=b""),
    decl(name=b"Bt", app=0x03c1, adva=1),
    decl(s16=range(0x1101, 0x1110)),
    decl(s16=(), s128=(UA,)),
    decl(s16=(), s128=(UA, UB, UC), gap=0),
    decl(s128=(UA,), name=b"Test Name", rng=(6, 0x0C80), app=0x03c1, adva=1),
    decl(s16=(0x1234, 0xabcd), s128=(UA,), l16=[0xabcd, 0x1234], l128=[UB]),
    decl(s16=(0x1212,), l16=[]),
    decl(cadv=C5, cscan=SCAN4),
    decl(cadv=C31, cscan=C40),
    decl(cadv="", cscan=""),          # runtime custom data, initially empty
    decl(nolist=1, name=b"A very long device name of 40 characters", rng=(0xFFFF, 0xFFFF)),
    decl(s128=(UA, UB), gap=0, name=b"Bt"),
    decl(nolist=1, name=b"abcdefghijklmnopqrstuvwxyz"),
    decl(nolist=1, app=0x03c1, adva=1, rng=(0x10, 0x20)),
]
RUNTIME = 14


def hexor(b):
    if b is None:
        return "none"
    if isinstance(b, bytes):
        b = b.hex()
    return b if b else "-"


def server_line(k):
    d = SERVERS[k]

    def lst(l, f):
        if l is None:
            return "none"
        return ",".join(f(x) for x in l) if l else "-"
    return ("server %d name=%s app=%d adva=%d s16=%s s128=%s gap=%d nolist=%d l16=%s l128=%s range=%s cadv=%s cscan=%s" % (
        k, hexor(d["name"]), d["app"], d["adva"], lst(d["s16"], str), lst(d["s128"], str), d["gap"], d["nolist"],
        lst(d["l16"], str), lst(d["l128"], str), "none" if d["range"] is None else "%d,%d" % d["range"],
        hexor(d["cadv"]), hexor(d["cscan"])))


def parse_out(line):
    w = line.split()
    if len(w) != 2 or not w[0].isdigit():
        return None
    return int(w[0]), (b"" if w[1] == "-" else bytes.fromhex(w[1]))


def tiles(data):
    """AD structures [len][type + payload: len octets] exactly tile `data`"""
    i, ads = 0, []
    while i < len(data):
        n = data[i]
        if i + 1 + n > len(data):
            return None
        ads.append(data[i + 1:i + 1 + n])
        i += 1 + n
    return ads


def monitor(k, custom_adv, custom_scan, op, n, out):
    """independent oracle for one call; returns list of (key, what)"""
    d = SERVERS[k]
    hits = []
    p = parse_out(out)
    if p is None:
        return [("C14:%s:unparsable" % op, "output `%s`" % out)]
    size, data = p
    if size > n:
        hits.append(("C14:%s:returned-size-exceeds-buffer" % op, "buffer %d, returned size %d" % (n, size)))
    if size > 31 and n <= 31:
        hits.append(("C14:%s:more-than-31" % op, "returned size %d" % size))
    custom = custom_adv if op == "adv" else custom_scan
    ads = tiles(data)
    if ads is None:
        if custom is not None:
            # custom data are opaque octets for the library: they tile iff the user data tile and
            # were not cut by a too small buffer
            if tiles(custom) is not None and len(custom) <= n:
                hits.append(("C14:%s:custom-data-not-copied" % op, "buffer %d: %s" % (n, data.hex())))
            else:
                hits.append(("C14:%s:custom-data-truncated-mid-structure" % op, "server %d buffer %d: %s" % (k, n, data.hex())))
        else:
            hits.append(("C14:%s:not-tiled" % op, "server %d buffer %d: %s" % (k, n, data.hex())))
        return hits
    if custom is not None:
        if data != custom[:n]:
            hits.append(("C14:%s:custom-data-not-copied" % op, "server %d buffer %d: %s" % (k, n, data.hex())))
        return hits
    if op == "scan":
        return hits
    if n >= 3 and (not ads or ads[0] != bytes([1, 6])):
        hits.append(("C14:adv:flags-missing", "server %d buffer %d: %s" % (k, n, data.hex())))
    name = d["name"]
    for ad in ads:
        if not ad:
            continue
        t, payload = ad[0], ad[1:]
        if t in (8, 9):
            if name is None or not name:
                hits.append(("C14:adv:name-without-name", "server %d buffer %d" % (k, n)))
            elif t == 9 and payload != name:
                hits.append(("C14:adv:complete-name-wrong", "server %d buffer %d: %r" % (k, n, payload)))
            elif t == 8 and not (0 < len(payload) < len(name) and name.startswith(payload)):
                hits.append(("C14:adv:shortened-name-wrong", "server %d buffer %d: %r" % (k, n, payload)))
        if t in (2, 3, 6, 7):
            w = 2 if t in (2, 3) else 16
            if d["nolist"]:
                full = []
            elif w == 2:
                l = d["l16"] if d["l16"] is not None else d["s16"] + ([0x1800] if d["gap"] else [])
                full = [x.to_bytes(2, "little") for x in l]
            else:
                l = d["l128"] if d["l128"] is not None else d["s128"]
                full = [bytes.fromhex(x) for x in l]
            got = [payload[i:i + w] for i in range(0, len(payload), w)]
            complete = t in (3, 7)
            if len(payload) % w or got != full[:len(got)] or complete != (len(got) == len(full)):
                hits.append(("C14:adv:uuid-list-%d-wrong" % (w * 8), "server %d buffer %d: type %d %s" % (k, n, t, payload.hex())))
    return hits


def run_c14(ctx, replay_path=None):
    res = Result()
    res.rule = ("for each of 19 real server<> declarations (names absent/empty/2/9/26/40 octets, appearance, implicit and explicit 16/128 bit "
                "service lists with 0..16 UUIDs, no_list_of_service_uuids, connection interval range, static and runtime custom data) "
                "advertising_data and scan_response_data are called with every buffer size 0..31 (thorough: 0..64) on an exactly sized heap "
                "buffer under ASan; returned size + octets are compared with the Lean model and checked by an independent Python "
                "monitor (fits, <= 31, AD structures tile exactly, flags first, name complete/shortened, UUID lists complete/incomplete); "
                "runtime custom data: random byte strings of length 0..40; non-trivial = a call that produced at least one AD structure")
    top = 64 if ctx.thorough else 31
    sessions, meta = [], []
    for _, ops in ctx.corpus():
        sessions.append(ops)
    ncorpus = len(sessions)
    for k in range(len(SERVERS)):
        ops = [server_line(k)]
        for n in range(top + 1):
            ops.append("adv %d" % n)
            ops.append("scan %d" % n)
        sessions.append(ops)
    for i in range(200 if ctx.thorough else 30):
        ops = [server_line(RUNTIME)]
        for _ in range(4):
            ln = ctx.rng.choice([0, 1, 2, 3, 5, 30, 31, 32, 40, ctx.rng.randrange(0, 41)])
            if ctx.rng.random() < 0.6:
                # well formed AD structures filling ln octets
                data, left = b"", ln
                while left >= 2:
                    n = ctx.rng.randrange(1, min(left - 1, 12) + 1)
                    data += bytes([n]) + bytes(ctx.rng.randrange(256) for _ in range(n))
                    left -= n + 1
            else:
                data = bytes(ctx.rng.randrange(256) for _ in range(ln))
            ops.append("%s %s" % (ctx.rng.choice(["setadv", "setscan"]), data.hex() or "-"))
            for _ in range(4):
                ops.append("%s %d" % (ctx.rng.choice(["adv", "scan"]), ctx.rng.randrange(0, top + 1)))
        sessions.append(ops)
    res.exhaustive = True
    res.extra["exhaustive_small_scope"] = "19 server types x buffer sizes 0..%d x {advertising, scan response}" % top
    impl, model, dis = ctx.run_pair(sessions)
    for d in dis:
        ops = sessions[d["session"]]
        res.disagreements.append(dict(d, ops=[ops[0], ops[d["op_index"]]] if d["op_index"] > 0 else ops[:1]))
    seen = set()
    for ops, r in zip(sessions, impl):
        res.sessions += 1
        outs = r["out"]
        res.evaluations += len(outs)
        k = int(ops[0].split()[1])
        cadv = SERVERS[k]["cadv"]
        cscan = SERVERS[k]["cscan"]
        cadv = bytes.fromhex(cadv) if cadv is not None else None
        cscan = bytes.fromhex(cscan) if cscan is not None else None
        if r["crash"]:
            j = len(outs)
            opj = ops[j] if j < len(ops) else "?"
            key = "C14:%s:crash:%s" % (opj.split()[0], r["crash"].split(" @")[0].replace(" ", "-"))
            res.failures.append({"key": key, "what": "server %d `%s`: %s" % (k, opj, r["crash"]), "ops": [ops[0], opj]})
        for op, out in zip(ops[1:], outs[1:]):
            w = op.split()
            res.count("op:" + w[0])
            if w[0] == "setadv":
                cadv = bytes.fromhex(w[1] if w[1] != "-" else "")[:31]
                continue
            if w[0] == "setscan":
                cscan = bytes.fromhex(w[1] if w[1] != "-" else "")[:31]
                continue
            n = int(w[1])
            p = parse_out(out)
            if p and p[0] > 0:
                res.distinct.add((k, w[0], n, out))
                res.count("nonempty")
            else:
                res.count("empty")
            for key, what in monitor(k, cadv, cscan, w[0], n, out):
                res.count("failure:" + key)
                if key not in seen:
                    seen.add(key)
                    pre = [o for o in ops[1:ops.index(op) + 1] if o.startswith("set")]
                    res.failures.append({"key": key, "what": what, "ops": [ops[0]] + pre[-2:] + [op]})
    res.samples = [" ; ".join(s[:6])[:300] for s in sessions[ncorpus:ncorpus + 2]]
    return res


PROPS = {
    "C14": dict(
        theorems=["BluetoeModel.AdvData.adv_never_oob", "BluetoeModel.AdvData.adv_fits", "BluetoeModel.AdvData.autoAdv_segments",
                  "BluetoeModel.AdvData.scan_rsp_never_oob", "BluetoeModel.AdvData.scan_rsp_fits", "BluetoeModel.AdvData.scan_rsp_auto",
                  "BluetoeModel.AdvData.flags_present", "BluetoeModel.AdvData.name_complete_or_shortened",
                  "BluetoeModel.AdvData.uuid16_complete_or_incomplete"],
        witnesses=[],
        run=run_c14,
        level="partial",
        technique="Lean 4 proofs (no out-of-bounds write, size, flags, name/UUID marking) for all declarations and buffer sizes + exhaustive correspondence (19 server types x all buffer sizes) with an independent structure monitor",
        level_text="adv_never_oob / adv_fits / scan_rsp_never_oob / scan_rsp_fits: no write leaves the buffer and the returned size fits it, for every declaration and size; flags_present; name_complete_or_shortened; uuid16_complete_or_incomplete. Model = code with fix advdata-01.",
        level_note="partial: exact tiling of the whole payload and the 128 bit list marking are checked exhaustively on the real code by the monitor, not proved in Lean; custom data cut mid-structure is a known finding.",
        design_ref="§5 C14",
        assumptions=["Decl.WF: 128 bit UUIDs have 16 octets (guaranteed by the C++ types)"],
    ),
}
