"""C20 — data channel selection (bluetoe/link_layer/channel_map.cpp, channel_map.hpp)"""
import itertools
from vlib.core import Result

NAME = "chanmap"
LEAN_MODULE = "BluetoeModel.ChannelMap"
DRIVER = "drv_chanmap"
HARNESS_DESC = "harness/chanmap.cpp (real bluetoe::link_layer::channel_map)"
HARNESS = dict(src="harness/chanmap.cpp", repo_srcs=["bluetoe/link_layer/channel_map.cpp"])

HOPS = list(range(5, 17))


def map_hex(bits):
    """bits: int with bit c set = channel c used (bits 37..39 are reserved garbage)"""
    return "".join("%02x" % ((bits >> (8 * i)) & 0xff) for i in range(5))


def map_of(chans, garbage=0):
    v = 0
    for c in chans:
        v |= 1 << c
    return v | (garbage << 37)


# ------------------------------------------------------------------------------------------
# independent oracle: Channel Selection Algorithm #1 as the Core spec words it (iteratively,
# with lastUnmappedChannel), written without looking at channel_map.cpp's table construction
# ------------------------------------------------------------------------------------------
def csa1_sequence(bits, hop, count):
    used = [c for c in range(37) if (bits >> c) & 1]
    last, out = 0, []
    for _ in range(count):
        unmapped = (last + hop) % 37
        last = unmapped
        if (bits >> unmapped) & 1:
            out.append(unmapped)
        else:
            out.append(used[unmapped % len(used)])
    return out


def valid(bits, hop):
    return bin(bits & ((1 << 37) - 1)).count("1") >= 2 and 5 <= hop <= 16


EVENTS = 37 * 3 + 5   # event numbers checked against every table (periodicity included)


def monitor(ops, outs):
    """returns (k, key, what) for the first op whose output contradicts the property, or None.
    conn = parameters of the current connection; `legal` = the history so far is one the link
    layer can produce (map-only updates only after an accepted connect)"""
    conn, table, legal = None, None, True
    for k, (op, out) in enumerate(zip(ops, outs)):
        w = op.split()
        if w[0] == "new":
            conn, table, legal = None, None, True
        elif w[0] == "reset":
            bits, hop = int.from_bytes(bytes.fromhex(w[1]), "little"), int(w[2])
            v = valid(bits, hop)
            if out != ("1" if v else "0"):
                return k, ("C20:invalid-request-accepted" if not v else "C20:valid-request-rejected"), \
                    "op %d `%s` answered %s; map has %d used channels, hop %d" % (k, op, out, bin(bits & ((1 << 37) - 1)).count("1"), hop)
            if v:
                conn, legal = (bits, hop), True
                table = csa1_sequence(bits, hop, EVENTS)
            else:
                conn = None          # no connection; table must stay, a later map-only update is not link layer usage
        elif w[0] == "remap":
            bits = int.from_bytes(bytes.fromhex(w[1]), "little")
            if conn is None:
                legal = False        # class-level usage outside the property: not monitored any further
                table = None
                continue
            v = valid(bits, conn[1])
            if out != ("1" if v else "0"):
                return k, ("C20:invalid-request-accepted" if not v else "C20:valid-request-rejected"), \
                    "op %d `%s` answered %s; map has %d used channels" % (k, op, out, bin(bits & ((1 << 37) - 1)).count("1"))
            if v:
                conn = (bits, conn[1])
                table = csa1_sequence(bits, conn[1], EVENTS)
        elif w[0] == "table" and legal:
            if table is None:
                if out != "uninit":
                    # table before the first accepted request is unspecified
                    pass
                continue
            got = [int(x) for x in out.split()] if out != "uninit" else []
            for n in range(EVENTS):
                if len(got) != 37 or got[n % 37] != table[n]:
                    return k, "C20:channel-differs-from-csa1", \
                        "op %d: connection event %d uses channel %s, Channel Selection Algorithm #1 gives %d" % (
                            k, n, got[n % 37] if len(got) == 37 else "?", table[n])
        elif w[0] == "chan" and legal and table is not None:
            idx = int(w[1])
            if idx < 37 and out != str(table[idx]):
                return k, "C20:channel-differs-from-csa1", \
                    "op %d: connection event %d uses channel %s, Channel Selection Algorithm #1 gives %d" % (k, idx, out, table[idx])
    return None


# ------------------------------------------------------------------------------------------
# generators
# ------------------------------------------------------------------------------------------
def random_map(rng):
    r = rng.random()
    if r < 0.25:
        bits = rng.getrandbits(37)
    elif r < 0.5:
        p = rng.random()
        bits = map_of([c for c in range(37) if rng.random() < p])
    elif r < 0.7:
        bits = map_of(rng.sample(range(37), rng.randrange(2, 6)))
    elif r < 0.9:
        bits = ((1 << 37) - 1) & ~map_of(rng.sample(range(37), rng.randrange(0, 5)))
    else:
        bits = map_of(rng.sample(range(37), rng.randrange(0, 2)))   # invalid: 0 or 1 used channel
    if rng.random() < 0.2:
        bits |= rng.randrange(8) << 37                            # reserved bits set
    return bits


def all_hops_session(bits):
    ops = ["new"]
    for hop in HOPS:
        ops += ["reset %s %d" % (map_hex(bits), hop), "table"]
    return ops


def history_session(rng, length):
    """link layer usage: connects (some invalid), updates only while connected, queries"""
    ops, connected = ["new"], False
    for _ in range(length):
        r = rng.random()
        if r < 0.3 or not connected:
            hop = rng.choice(HOPS) if rng.random() < 0.8 else rng.choice([0, 1, 4, 17, 18, 31, 37, 255, 261])
            bits = random_map(rng)
            ops.append("reset %s %d" % (map_hex(bits), hop))
            connected = valid(bits, hop)
        elif r < 0.6:
            ops.append("remap %s" % map_hex(random_map(rng)))
        elif r < 0.8:
            ops.append("table")
        elif r < 0.95:
            ops.append("chan %d" % rng.randrange(37))
        else:
            ops.append("hop")
    ops.append("table")
    return ops


def class_session(rng, length):
    """arbitrary call order on the class (correspondence only where it leaves link layer usage)"""
    ops = ["new"]
    for _ in range(length):
        r = rng.random()
        if r < 0.3:
            ops.append("reset %s %d" % (map_hex(random_map(rng)), rng.choice(HOPS + [0, 4, 17, 300])))
        elif r < 0.6:
            ops.append("remap %s" % map_hex(random_map(rng)))
        elif r < 0.75:
            ops.append("table")
        elif r < 0.9:
            ops.append("chan %d" % rng.randrange(40))
        else:
            ops.append("hop")
    return ops


def extreme_maps(max_unused_or_used):
    """all maps with <= k used channels and all maps with >= 37-k used channels"""
    full = (1 << 37) - 1
    for k in range(max_unused_or_used + 1):
        for chans in itertools.combinations(range(37), k):
            m = map_of(chans)
            yield m
            yield full & ~m


def run_c20(ctx, replay_path=None):
    res = Result()
    res.rule = ("a session creates a channel_map object and issues reset(map,hop) / reset(map) / data_channel calls; "
                "every session runs on the real class and on the Lean model (compared line by line, incl. hop_) and the "
                "tables are checked by an independent iterative CSA#1 oracle for connection events 0..115 (3 periods); "
                "maps: all with <=2 / >=35 used channels (quick: <=3 / >=34 sampled, thorough: all <=3 / >=34) x all 12 hops, "
                "random maps of every density x all 12 hops, link-layer-like histories with invalid requests interleaved; "
                "a case is non-trivial if a table was produced with at least one remapped entry or a request was rejected; "
                "distinct = distinct (map, hop) pairs")
    sessions = [ops for _, ops in ctx.corpus()]
    rng = ctx.rng
    ext = sorted(set(extreme_maps(2)))
    three = sorted(set(extreme_maps(3)) - set(ext))
    if not ctx.thorough:
        three = rng.sample(three, 1500)
    for bits in ext + three:
        sessions.append(all_hops_session(bits))
    res.extra["exhaustive_small_scope"] = "all maps with <=2 or >=35 used channels x 12 hops" + (
        "; all maps with 3 or 34 used channels x 12 hops" if ctx.thorough else "; 1500 sampled maps with 3 / 34 used channels")
    for _ in range(30000 if ctx.thorough else 1500):
        sessions.append(all_hops_session(random_map(rng)))
    for _ in range(20000 if ctx.thorough else 1500):
        sessions.append(history_session(rng, rng.randrange(4, 30)))
    for _ in range(5000 if ctx.thorough else 400):
        sessions.append(class_session(rng, rng.randrange(4, 30)))

    impl, model, dis = ctx.run_pair(sessions)
    for d in dis:
        ops = ctx.shrink_disagreement(sessions[d["session"]]) if len(res.disagreements) < 3 else sessions[d["session"]]
        res.disagreements.append(dict(d, ops=ops))
    for ops, r in zip(sessions, impl):
        outs = r["out"]
        res.evaluations += len(outs)
        res.sessions += 1
        if r["crash"]:
            res.failures.append({"key": "C20:crash:" + r["crash"].split(" @")[0], "what": r["crash"], "ops": ops[:len(outs) + 1]})
            continue
        m = monitor(ops, outs)
        if m:
            k, key, what = m
            if len([f for f in res.failures if f["key"] == key]) < 3:
                res.failures.append({"key": key, "what": what, "ops": ops[:k + 1]})
        for op, out in zip(ops, outs):
            w = op.split()
            res.count(w[0])
            if w[0] in ("reset", "remap"):
                res.count("accepted" if out == "1" else "rejected")
            if w[0] == "reset":
                bits = int.from_bytes(bytes.fromhex(w[1]), "little")
                n = bin(bits & ((1 << 37) - 1)).count("1")
                res.count("used_%s" % ("0-1" if n < 2 else "2-5" if n < 6 else "6-31" if n < 32 else "32-36" if n < 37 else "37"))
                if n < 37 or out == "0":
                    res.distinct.add((bits, int(w[2])))
    res.samples = [" ; ".join(s[:6]) for s in (sessions[0], sessions[len(sessions) // 2], sessions[-1])]
    return res


PROPS = {
    "C20": dict(
        theorems=["BluetoeModel.ChannelMap.data_channel_eq_csa1", "BluetoeModel.ChannelMap.update_eq_csa1",
                  "BluetoeModel.ChannelMap.reset_rejects", "BluetoeModel.ChannelMap.update_rejects",
                  "BluetoeModel.ChannelMap.reset_ok_iff", "BluetoeModel.ChannelMap.reset_never_oob",
                  "BluetoeModel.ChannelMap.history_follows_csa1", "BluetoeModel.ChannelMap.csa1_selects_used",
                  "BluetoeModel.ChannelMap.remapTable_ascending", "BluetoeModel.ChannelMap.mem_remapTable"],
        witnesses=["BluetoeModel.ChannelMap.rejected_reset_may_change_hop"],
        run=run_c20,
        level="proof",
        technique="Lean 4 proof that the model of channel_map::reset/data_channel equals an independently written CSA#1 specification for every 5-byte map, hop and event number + differential correspondence with the real channel_map class",
        level_text="Theorem data_channel_eq_csa1: for every 5-byte channel map with >= 2 used channels, every hop 5..16 and every (unbounded) connection event number n the table entry n mod 37 built by the model of channel_map::reset is the Core spec's CSA#1 channel (recursive lastUnmappedChannel definition + ascending remapping table); reset_rejects/update_rejects/reset_ok_iff: invalid requests return false and leave the table untouched; history_follows_csa1 lifts this to every sequence of connect requests and map updates. The model is tied to channel_map.cpp by running all maps with <=2/>=35 used channels x 12 hops, sampled/all maps with 3/34 used channels, random maps and random histories on both and by an independent Python CSA#1 oracle.",
        level_note="Trusted: Lean kernel + standard axioms; model = code only as far as the differential check samples it (2^37 maps cannot be enumerated on the real code); that link_layer<> indexes the table with the event number mod 37 is C23's counter_channel_in_step.",
        design_ref="§5 C20",
        assumptions=["the channel index handed to data_channel() is the connection event number mod 37 (C23)",
                     "reset(map) is only called on an established connection (link_layer.hpp handle_pending_ll_control)"],
    ),
}
