"""C02 / C03 — ATT discovery (Find Information, Read By Type, Read By Group Type, Find By Type Value)
of bluetoe/server.hpp over the generated family of server types (comp/attfamily.py)"""
from vlib.core import Result
from comp import attfamily as F
from comp.atthandles import FLAGS

NAME = "attdisc"
LEAN_MODULE = "BluetoeModel.AttDiscovery"
LEAN_DIRS = ["BluetoeModel/AttDiscovery", "BluetoeModel/AttHandles"]
DRIVER = "drv_attdisc"
HARNESS_DESC = "harness/attdisc.cpp (real server<>::l2cap_input of 24 generated server types)"
HARNESS = dict(src="harness/attdisc.cpp", flags=FLAGS)

BASE12 = bytes([0xFB, 0x34, 0x9B, 0x5F, 0x80, 0x00, 0x00, 0x80, 0x00, 0x10, 0x00, 0x00])
MTUS = [23, 23, 23, 24, 27, 29, 40, 50, 64, 100, 300]


def le16(v):
    return bytes([v & 0xff, (v >> 8) & 0xff])


# ---------------------------------------------------------------------------------------------
# the real table as dumped by the harness
# ---------------------------------------------------------------------------------------------
class Table:
    def __init__(self, line):
        self.rows = []      # dict(h, uuid (bytes 2|16), rc, val)
        prev = None
        for tok in line.split():
            h, u, rc, v = tok.split(":")
            val = bytes.fromhex(v) if v != "-" else b""
            u16 = int(u, 16)
            if u16 == 1 and prev is not None and prev["uuid"] == le16(0x2803) and len(prev["val"]) == 19:
                uuid = prev["val"][3:]          # 128 bit type: named by the preceding declaration
            else:
                uuid = le16(u16)
            row = dict(h=int(h), uuid=uuid, rc=int(rc), val=val)
            self.rows.append(row)
            prev = row
        self.handles = [r["h"] for r in self.rows]
        self.services = []  # dict(first, last, primary, uuid)
        for i, r in enumerate(self.rows):
            if r["uuid"] in (le16(0x2800), le16(0x2801)):
                self.services.append(dict(first=r["h"], primary=r["uuid"] == le16(0x2800), uuid=r["val"], idx=i))
        for k, s in enumerate(self.services):
            end_idx = (self.services[k + 1]["idx"] if k + 1 < len(self.services) else len(self.rows)) - 1
            s["last"] = self.rows[end_idx]["h"]

    def sane(self):
        return all(0 < a for a in self.handles) and all(a < b for a, b in zip(self.handles, self.handles[1:])) and bool(self.rows)

    def end_class(self, e):
        if e in self.handles:
            return "end-exact"
        return "end-in-gap" if e < max(self.handles) else "end-beyond"


# ---------------------------------------------------------------------------------------------
# generator
# ---------------------------------------------------------------------------------------------
def boundaries(tbl):
    b = {0, 1, 2, 0xFFFF, 0xFFFE}
    hs = tbl.handles
    for h in hs:
        b.update((h - 1, h, h + 1))
    for a, c in zip(hs, hs[1:]):
        if c - a > 2:
            b.add((a + c) // 2)
    return sorted(x for x in b if 0 <= x <= 0xFFFF)


def type_candidates(tbl, rng):
    t = {r["uuid"] for r in tbl.rows}
    t.update(le16(x) for x in (0x2800, 0x2801, 0x2802, 0x2803, 0x2902, 0x2901, 0x0001, 0x2AFF))
    t16 = [x for x in t if len(x) == 2]
    # 16 bit types in their 128 bit form, a near miss of the base uuid, a random 128 bit type
    extra = [BASE12 + rng.choice(t16) + b"\x00\x00", BASE12 + rng.choice(t16) + b"\x00\x01",
             bytes([0xFA]) + BASE12[1:] + rng.choice(t16) + b"\x00\x00", bytes(rng.randrange(256) for _ in range(16))]
    return sorted(t) + extra


def one_byte_off(v, rng, pos=None):
    """v with exactly one byte changed"""
    pos = rng.randrange(len(v)) if pos is None else pos
    return v[:pos] + bytes([v[pos] ^ rng.choice([0x01, 0x80, 0xFF, 1 << rng.randrange(8)])]) + v[pos + 1:]


def fbtv_values(tbl, rng):
    """values for Find By Type Value «Primary Service», per service of the table (primary AND secondary), by class:
    a  the 2 byte UUID of a 16 bit service            b  its 16 byte Bluetooth-base expansion (octet-wise: no match)
    c  b with one byte changed (base part, UUID part, the two zero bytes)
    d  first 2 bytes / bytes 12..13 of a 128 bit service UUID as a 2 byte value (a prefix is no match)
    e  the 16 byte UUID of a 128 bit service          f  e / a with one byte changed"""
    out = []
    for x in tbl.services:
        u = x["uuid"]
        if len(u) == 2:
            b = BASE12 + u + b"\x00\x00"
            out += [("a", u), ("b", b), ("c", one_byte_off(b, rng, rng.randrange(12))), ("c", one_byte_off(b, rng, rng.choice([12, 13]))),
                    ("c", one_byte_off(b, rng, rng.choice([14, 15]))), ("f", one_byte_off(u, rng))]
        elif len(u) == 16:
            out += [("d", u[:2]), ("d", u[12:14]), ("e", u), ("f", one_byte_off(u, rng)), ("f", one_byte_off(u, rng, rng.choice([0, 1])))]
    return out


def fbtv_targeted(tbl, rng):
    """every value class for every service once over the whole handle range and once over exactly the service's own range"""
    out = []
    vals = fbtv_values(tbl, rng)
    seen = set()
    for cls, v in vals:
        if (cls, v) in seen:
            continue
        seen.add((cls, v))
        out.append((rng.choice(MTUS), bytes([0x06]) + le16(1) + le16(0xFFFF) + le16(0x2800) + v))
    for x in tbl.services:
        u = x["uuid"]
        for v in ([u, BASE12 + u + b"\x00\x00"] if len(u) == 2 else [u, u[:2]]):
            out.append((23, bytes([0x06]) + le16(x["first"]) + le16(x["last"]) + le16(0x2800) + v))
    return out


def gen_pdus(tbl, rng, pid, count, thorough):
    """structured stream: valid discovery requests with start/end on, just before and just behind
    every handle and inside every gap; ~12 % single-field mutations / malformed lengths"""
    B = boundaries(tbl)
    types = type_candidates(tbl, rng)
    svc_values = sorted({s["uuid"] for s in tbl.services}) + [le16(0x1899), bytes(rng.randrange(256) for _ in range(16))]
    svc_classes = fbtv_values(tbl, rng)
    ops = {"C02": [0x04, 0x08, 0x08, 0x10], "C03": [0x10, 0x06, 0x06]}[pid]
    out = []

    def pick_range():
        r = rng.random()
        if r < 0.15:
            return 1, 0xFFFF
        s, e = rng.choice(B), rng.choice(B)
        if r < 0.93 and s > e:
            s, e = e, s
        if r < 0.90 and s == 0:
            s = 1
        return s, max(e, s) if r < 0.93 else e

    def build(op, s, e):
        p = bytes([op]) + le16(s) + le16(e)
        if op == 0x08:
            p += rng.choice(types)
        elif op == 0x10:
            r = rng.random()
            p += le16(0x2800) if r < 0.8 else (rng.choice([le16(0x2801), le16(0x2803), BASE12 + le16(0x2800) + b"\x00\x00"]))
        elif op == 0x06:
            r = rng.random()
            # half of the values by class (2 byte form, base-UUID expansion, one byte off, prefix of a 128 bit UUID, …)
            v = rng.choice(svc_classes)[1] if svc_classes and rng.random() < 0.5 else rng.choice(svc_values)
            p += (le16(0x2800) if r < 0.9 else rng.choice([le16(0x2801), le16(0x2803)])) + v
        return p

    for _ in range(count):
        op = rng.choice(ops)
        s, e = pick_range()
        p = build(op, s, e)
        if rng.random() < 0.06:            # malformed length
            p = p[:rng.randrange(1, len(p))] if rng.random() < 0.5 else p + bytes(rng.randrange(256) for _ in range(rng.randrange(1, 4)))
        out.append((rng.choice(MTUS), p))
    if pid == "C03":
        out += fbtv_targeted(tbl, rng)
    if thorough:
        # exhaustive over all boundary pairs for the main request of every opcode
        for s in B:
            for e in B:
                if 0 < s <= e:
                    for op in set(ops):
                        if op == 0x04:
                            out.append((23, bytes([op]) + le16(s) + le16(e)))
                        elif op == 0x08:
                            out.append((23, bytes([op]) + le16(s) + le16(e) + le16(0x2803)))
                            out.append((64, bytes([op]) + le16(s) + le16(e) + le16(0x2800)))
                        elif op == 0x10:
                            out.append((rng.choice([23, 64]), bytes([op]) + le16(s) + le16(e) + le16(0x2800)))
                        else:
                            out.append((23, bytes([op]) + le16(s) + le16(e) + le16(0x2800) + rng.choice(svc_values)))
    return out


# ---------------------------------------------------------------------------------------------
# monitors (independent of the model: the property evaluated against the real table)
# ---------------------------------------------------------------------------------------------
def parse_req(p):
    """well-formed discovery request -> (op, s, e, rest) else None"""
    if len(p) < 5:
        return None
    op, s, e, rest = p[0], p[1] | p[2] << 8, p[3] | p[4] << 8, p[5:]
    if s == 0 or s > e:
        return None
    if (op == 0x04 and len(rest) == 0) or (op in (0x08, 0x10) and len(rest) in (2, 16)) or (op == 0x06 and len(rest) in (4, 18)):
        return op, s, e, rest
    return None


def norm_type(t):
    """a 128 bit type built from the base uuid is the 16 bit type"""
    if len(t) == 16 and t[:12] == BASE12 and t[14:] == b"\x00\x00":
        return t[12:14]
    return t


def is_not_found(rsp, op):
    return len(rsp) == 5 and rsp[0] == 0x01 and rsp[1] == op and rsp[4] == 0x0A


def prefix_check(name, returned, match_handles, skip_reason):
    """returned handles must be the first k >= 1 of match_handles; otherwise something was skipped"""
    fails = []
    k = len(returned)
    if returned != match_handles[:k]:
        last = returned[-1]
        skipped = [h for h in match_handles if h < last and h not in returned]
        if skipped:
            why = skip_reason(skipped)
            fails.append(("%s:skips-%s" % (name, why), "handles %s match and lie before the last returned handle %d but are not returned (repeating from %d never enumerates them)" % (skipped[:6], last, last + 1)))
    return fails


def monitor_c02(tbl, mtu, p, rsp):
    req = parse_req(p)
    if req is None or not rsp:
        return []
    op, s, e, rest = req
    ec = tbl.end_class(e)
    rng_rows = [r for r in tbl.rows if s <= r["h"] <= e]
    fails = []
    if op == 0x04:
        name = "C02:find-information"
        match = rng_rows
        if is_not_found(rsp, op):
            return [(name + ":not-found-but-exists:" + ec, "attributes %s lie in %04x..%04x" % ([r["h"] for r in match][:6], s, e))] if match else []
        if rsp[0] != 0x05:
            return [(name + ":unexpected-response", rsp.hex())] if not match or rsp[0] != 0x01 else [(name + ":error-but-exists:" + ec, rsp.hex())]
        if not match:
            return [(name + ":response-but-nothing-in-range:" + ec, rsp.hex())]
        sz = 4 if rsp[1] == 1 else 18
        body = rsp[2:]
        if not body or len(body) % sz:
            return [(name + ":empty-response:" + ec, "response %s for %04x..%04x" % (rsp.hex(), s, e))]
        items = [(body[i] | body[i + 1] << 8, body[i + 2:i + sz]) for i in range(0, len(body), sz)]
        by_h = {r["h"]: r for r in match}
        for h, u in items:
            if h not in by_h:
                return [(name + ":out-of-range:" + ec, "handle %d returned for %04x..%04x" % (h, s, e))]
            if by_h[h]["uuid"] != u:
                return [(name + ":wrong-type", "handle %d has type %s, response says %s" % (h, by_h[h]["uuid"].hex(), u.hex()))]
        hs = [h for h, _ in items]
        if hs != sorted(set(hs)):
            return [(name + ":not-ascending", str(hs))]
        if hs[0] != match[0]["h"]:
            return [(name + ":first-attribute-skipped:" + ec, "first in range is %d, first returned %d" % (match[0]["h"], hs[0]))]
        fails += prefix_check(name, hs, [r["h"] for r in match],
                              lambda sk: "other-uuid-size" if all(len(by_h[h]["uuid"]) != (sz - 2) for h in sk) else "attributes")
    elif op == 0x08:
        name = "C02:read-by-type"
        ty = norm_type(rest)
        match = [r for r in rng_rows if r["uuid"] == ty]
        if is_not_found(rsp, op):
            if not match:
                return []
            if len(ty) == 16:
                return [(name + ":128bit-type-never-matches", "type %s, attributes %s" % (ty.hex(), [r["h"] for r in match][:4]))]
            if all(r["rc"] != 0 for r in match):
                return [(name + ":unreadable-attribute-not-found", "type %s, attributes %s exist but cannot be read" % (ty.hex(), [r["h"] for r in match][:4]))]
            return [(name + ":not-found-but-exists:" + ec, "type %s in %04x..%04x: attributes %s" % (ty.hex(), s, e, [r["h"] for r in match][:6]))]
        if rsp[0] != 0x09:
            return [(name + ":error-but-exists:" + ec, rsp.hex())] if match and rsp[0] == 0x01 else []
        sz = rsp[1]
        body = rsp[2:]
        if sz < 2 or not body or len(body) % sz:
            return [(name + ":malformed-response", rsp.hex())]
        hs = [body[i] | body[i + 1] << 8 for i in range(0, len(body), sz)]
        by_h = {r["h"]: r for r in match}
        for h in hs:
            if h not in by_h:
                inr = [r for r in rng_rows if r["h"] == h]
                return [(name + (":wrong-type" if inr else ":out-of-range:" + ec), "handle %d returned for type %s in %04x..%04x" % (h, ty.hex(), s, e))]
        if hs != sorted(set(hs)):
            return [(name + ":not-ascending", str(hs))]
        readable = [r["h"] for r in match if r["rc"] == 0]
        if readable and hs[0] != readable[0] and hs[0] != match[0]["h"]:
            return [(name + ":first-attribute-skipped:" + ec, "first match %d, first returned %d" % (match[0]["h"], hs[0]))]

        def why(sk):
            if all(by_h[h]["rc"] != 0 for h in sk):
                return "unreadable"
            if all(by_h[h]["rc"] != 0 or min(len(by_h[h]["val"]), mtu - 4, 253) != sz - 2 for h in sk):
                return "different-size"
            return "attributes"
        fails += prefix_check(name, hs, [r["h"] for r in match], why)
    elif op == 0x10 and norm_type(rest) == le16(0x2800) and len(rest) == 2:
        name = "C02:read-by-group-type"
        svcs = [x for x in tbl.services if s <= x["first"] <= e]
        prim = [x for x in svcs if x["primary"]]
        if is_not_found(rsp, op):
            return [(name + ":not-found-but-exists:" + ec, "primary services at %s" % [x["first"] for x in prim][:6])] if prim else []
        if rsp[0] != 0x11:
            return [(name + ":error-but-exists:" + ec, rsp.hex())] if prim and rsp[0] == 0x01 else []
        sz = rsp[1]
        body = rsp[2:]
        if sz not in (6, 20) or not body or len(body) % sz:
            return [(name + ":malformed-response", rsp.hex())]
        hs = [body[i] | body[i + 1] << 8 for i in range(0, len(body), sz)]
        for h in hs:
            if h not in [x["first"] for x in svcs]:
                return [(name + ":out-of-range:" + ec, "group at %d returned for %04x..%04x" % (h, s, e))]
        if hs != sorted(set(hs)):
            return [(name + ":not-ascending", str(hs))]
    return fails


def monitor_c03(tbl, mtu, p, rsp):
    req = parse_req(p)
    if req is None or not rsp:
        return []
    op, s, e, rest = req
    ec = tbl.end_class(e)
    if op == 0x10 and rest == le16(0x2800):
        name = "C03:read-by-group-type"
        prim = [x for x in tbl.services if x["primary"] and s <= x["first"] <= e]
        if is_not_found(rsp, op):
            return [(name + ":primary-service-not-reported:" + ec, "primary services at %s" % [x["first"] for x in prim][:6])] if prim else []
        if rsp[0] != 0x11:
            return [(name + ":error-but-exists:" + ec, rsp.hex())] if prim and rsp[0] == 0x01 else []
        sz = rsp[1]
        body = rsp[2:]
        if sz not in (6, 20) or not body or len(body) % sz:
            return [(name + ":malformed-response", rsp.hex())]
        items = [(body[i] | body[i + 1] << 8, body[i + 2] | body[i + 3] << 8, body[i + 4:i + sz]) for i in range(0, len(body), sz)]
        return check_groups(name, tbl, prim, items, ec, s, e, True, mtu)
    if op == 0x06 and rest[:2] == le16(0x2800):
        name = "C03:find-by-type-value"
        val = rest[2:]
        prim = [x for x in tbl.services if x["primary"] and s <= x["first"] <= e and x["uuid"] == val]
        if is_not_found(rsp, op):
            return [(name + ":primary-service-not-reported:" + ec, "primary services %s at %s" % (val.hex(), [x["first"] for x in prim][:6]))] if prim else []
        if rsp[0] != 0x07:
            return [(name + ":error-but-exists:" + ec, rsp.hex())] if prim and rsp[0] == 0x01 else []
        body = rsp[1:]
        if not body or len(body) % 4:
            return [(name + ":malformed-response", rsp.hex())]
        items = [(body[i] | body[i + 1] << 8, body[i + 2] | body[i + 3] << 8, val) for i in range(0, len(body), 4)]
        return check_groups(name, tbl, prim, items, ec, s, e, False, mtu)
    return []


def fbtv_class(tbl, val):
    """what a Find By Type Value value is with respect to the services of the real table (distribution only)"""
    for x in tbl.services:
        if x["uuid"] == val:
            return "exact-primary" if any(y["primary"] and y["uuid"] == val for y in tbl.services) else "exact-secondary"
    for x in tbl.services:
        u = x["uuid"]
        if len(u) == 2 and val == BASE12 + u + b"\x00\x00":
            return "base-expansion-of-" + ("primary" if x["primary"] else "secondary")
    for x in tbl.services:
        u = x["uuid"]
        if len(u) == 16 and len(val) == 2 and val in (u[:2], u[12:14]):
            return "part-of-128bit-uuid"
    for x in tbl.services:
        u = x["uuid"]
        full = u if len(u) == 16 else BASE12 + u + b"\x00\x00"
        if len(val) == len(u) and sum(a != b for a, b in zip(val, u)) == 1:
            return "one-byte-off-uuid"
        if len(val) == 16 and sum(a != b for a, b in zip(val, full)) == 1:
            return "one-byte-off-expansion"
    return "other-%d-bytes" % len(val)


def check_groups(name, tbl, prim, items, ec, s, e, stop_at_size_change, mtu):
    by_first = {x["first"]: x for x in tbl.services}
    for first, last, uuid in items:
        x = by_first.get(first)
        if x is None:
            return [(name + ":not-a-service", "group %04x..%04x is not a declared service" % (first, last))]
        if not x["primary"]:
            return [(name + ":secondary-reported", "secondary service %s at %04x..%04x reported as primary" % (x["uuid"].hex(), first, last))]
        if not (s <= first <= e):
            return [(name + ":out-of-range:" + ec, "service at %04x reported for %04x..%04x" % (first, s, e))]
        if last != x["last"] or uuid != x["uuid"]:
            return [(name + ":wrong-range-or-uuid", "service %04x..%04x %s reported as %04x..%04x %s" % (x["first"], x["last"], x["uuid"].hex(), first, last, uuid.hex()))]
    hs = [f for f, _, _ in items]
    if hs != sorted(set(hs)):
        return [(name + ":not-ascending", str(hs))]
    exp = [x["first"] for x in prim]
    if stop_at_size_change:      # one response holds services of one uuid size, without a gap
        k = 0
        while k < len(prim) and len(prim[k]["uuid"]) == len(prim[0]["uuid"]):
            k += 1
        exp = exp[:k]
    if hs != exp[:len(hs)]:
        return [(name + ":primary-service-skipped:" + ec, "primary services in range %s, reported %s" % (exp[:8], hs[:8]))]
    return []


# ---------------------------------------------------------------------------------------------
# declarations whose last attribute handle is 0xFFFF (excluded by the model's ServerDecl.WF.fits):
# hand-written server types in harness/attdisc.cpp, real code only (no model counterpart)
# ---------------------------------------------------------------------------------------------
TOP_SERVERS = [(0, "service attribute_handle<0xFFFD>: handles 1,2,3,0xFFFD,0xFFFE,0xFFFF", True),
               (1, "service attribute_handle<0xFFFC>: handles 1,2,3,0xFFFC,0xFFFD,0xFFFE (control)", False),
               (2, "characteristic attribute_handle<0xFFFE>: handles 1,2,3,4,0xFFFE,0xFFFF", True),
               (3, "characteristic attribute_handle<0xFFFD>: handles 1,2,3,4,0xFFFD,0xFFFE (control)", False)]


def top_handle_probe(ctx, pid, monitor, res):
    """the property evaluated on the real code for declarations that reach handle 0xFFFF; failures
    get the key <pid>:last-handle-0xffff:<request>:<symptom>; the controls (last handle 0xFFFE)
    must be clean under the ordinary keys"""
    heads = ["topserver %d" % k for k, _, _ in TOP_SERVERS]
    t_impl = ctx.run_impl([[h, "table"] for h in heads])
    sessions, meta = [], []
    for (k, name, wraps), h, r in zip(TOP_SERVERS, heads, t_impl):
        if r["crash"] or len(r["out"]) < 2 or not r["out"][0].startswith("ok"):
            res.failures.append({"key": "%s:top-handle-server-unusable" % pid, "what": "%s: %s" % (name, r["crash"] or r["out"]), "ops": [h, "table"]})
            continue
        t = Table(r["out"][1])
        if not t.sane() or (max(t.handles) == 0xFFFF) != wraps:
            res.failures.append({"key": "%s:top-handle-table" % pid, "what": "%s: real handles %s" % (name, t.handles), "ops": [h, "table"]})
            continue
        first = t.services[-1]["first"]
        fixed = [bytes([0x04]) + le16(first) + le16(0xFFFF), bytes([0x04]) + le16(t.handles[-1]) + le16(0xFFFF),
                 bytes([0x08]) + le16(4) + le16(0xFFFF) + le16(0x2803), bytes([0x10]) + le16(first) + le16(0xFFFF) + le16(0x2800),
                 bytes([0x10]) + le16(1) + le16(0xFFFF) + le16(0x2800), bytes([0x06]) + le16(first) + le16(0xFFFF) + le16(0x2800) + le16(0x1802),
                 bytes([0x06]) + le16(1) + le16(0xFFFF) + le16(0x2800) + le16(0x1802), bytes([0x04]) + le16(1) + le16(0xFFFF)]
        pdus = [(23, p) for p in fixed] + gen_pdus(t, ctx.rng, pid, 40, False)
        sessions.append([h, "table"] + ["pdu %d %s" % (m, p.hex()) for m, p in pdus])
        meta.append((k, name, wraps, t, pdus, h))
    for (k, name, wraps, t, pdus, h), r in zip(meta, ctx.run_impl(sessions)):
        res.sessions += 1
        res.evaluations += len(r["out"])
        res.count("top_handle_server_%d_requests" % k, len(pdus))
        if r["crash"]:
            res.failures.append({"key": "%s:crash:%s" % (pid, r["crash"].split(" @")[0]), "what": r["crash"], "ops": [h]})
        for (mtu, p), out in zip(pdus, r["out"][2:]):
            rsp = bytes.fromhex(out) if out not in ("-", "bad-op") and not out.startswith("<") else b""
            for key, what in monitor(t, mtu, p, rsp):
                if wraps:
                    key = "%s:last-handle-0xffff:%s" % (pid, ":".join(key.split(":")[1:3]))
                res.failures.append({"key": key, "what": "top-handle server %d (%s) mtu %d request %s -> %s: %s" % (k, name, mtu, p.hex(), rsp.hex(), what),
                                     "ops": [h, "pdu %d %s" % (mtu, p.hex())],
                                     "input": "server with %s, MTU %d, request %s" % (name, mtu, p.hex())})


# ---------------------------------------------------------------------------------------------
def run(ctx, pid):
    F.check_header_current()
    res = Result()
    fam = F.family()
    monitor = monitor_c02 if pid == "C02" else monitor_c03
    res.rule = ("per generated server type: dump the real attribute table, then send discovery requests (%s) built from that table: "
                "start/end handles on, one before and one behind every attribute handle, in every handle gap, 0, 1, 0xFFFF; every attribute "
                "type present plus absent / 128-bit-form / near-miss types; Find By Type Value values per service of the table, primary and "
                "secondary: the 2 byte UUID, its 16 byte Bluetooth-base expansion, the expansion / the UUID with one byte changed, the "
                "first two bytes and bytes 12..13 of a 128 bit UUID as 2 byte value, the 16 byte UUID - each class once per service "
                "over the whole handle range and over the service's own range, and mixed into the random stream; MTU 23..300; ~6 %% "
                "malformed lengths; thorough adds all boundary start<=end pairs per opcode. Every response of the real l2cap_input is compared byte-wise with the Lean model and "
                "checked by an independent Python monitor against the property evaluated on the real table. distinct = distinct (server, PDU, MTU)"
                % ("Find Information, Read By Type, Read By Group Type" if pid == "C02" else "Read By Group Type, Find By Type Value"))
    heads = ["server %d %s" % (k, F.decl_tokens(s)) for k, (_, s) in enumerate(fam)]
    # phase 1: the real tables
    t_sessions = [[h, "table"] for h in heads]
    t_impl = ctx.run_impl(t_sessions)
    tables = {}
    for k, r in enumerate(t_impl):
        if r["crash"] or len(r["out"]) < 2 or not r["out"][0].startswith("ok"):
            res.count("servers_skipped_table_unreadable")   # include_service<> types: C04 known finding
            continue
        t = Table(r["out"][1])
        if not t.sane():
            res.count("servers_skipped_table_not_ascending")
            continue
        tables[k] = t
    # phase 2: requests
    sessions, meta = [], []
    for name, ops in ctx.corpus():
        sessions.append(ops)
        meta.append(None)
    per = 700 if ctx.thorough else 70
    for k, t in sorted(tables.items()):
        pdus = gen_pdus(t, ctx.rng, pid, per, ctx.thorough)
        sessions.append([heads[k], "table"] + ["pdu %d %s" % (m, p.hex()) for m, p in pdus])
        meta.append((k, pdus))
    impl, model, dis = ctx.run_pair(sessions)
    for d in dis[:20]:
        ops = sessions[d["session"]]
        small = [ops[0], d["op"]] if d["op_index"] > 0 else ops[:1]
        res.disagreements.append(dict(d, ops=small, impl=(d["impl"] or "")[:300], model=(d["model"] or "")[:300]))
    for ops, r, m in zip(sessions, impl, meta):
        res.sessions += 1
        res.evaluations += len(r["out"])
        if r["crash"]:
            res.failures.append({"key": "%s:crash:%s" % (pid, r["crash"].split(" @")[0]), "what": r["crash"],
                                 "ops": [ops[0], ops[min(len(r["out"]), len(ops) - 1)]]})
        if m is None:
            k = int(ops[0].split()[1])
            if k not in tables:
                continue
            t = tables[k]
            pdus = [(int(o.split()[1]), bytes.fromhex(o.split()[2])) for o in ops[2:] if o.startswith("pdu ")]
            outs = [x for o, x in zip(ops, r["out"]) if o.startswith("pdu ")]
        else:
            k, pdus = m
            t = tables[k]
            outs = r["out"][2:]
        for (mtu, p), out in zip(pdus, outs):
            rsp = bytes.fromhex(out) if out not in ("-", "bad-op") and not out.startswith("<") else b""
            res.distinct.add((k, mtu, p))
            res.count("op_%02x" % p[0])
            res.count("rsp_%02x%s" % (rsp[0], "_%02x" % rsp[4] if rsp[0] == 1 and len(rsp) == 5 else "") if rsp else "rsp_none")
            req = parse_req(p)
            if req:
                res.count(t.end_class(req[2]))
                if pid == "C03" and req[0] == 0x06 and req[3][:2] == le16(0x2800):
                    res.count("fbtv_value_" + fbtv_class(t, req[3][2:]))
            for key, what in monitor(t, mtu, p, rsp):
                res.failures.append({"key": key, "what": "S%d mtu %d request %s -> %s: %s" % (k, mtu, p.hex(), rsp.hex(), what),
                                     "ops": [heads[k], "pdu %d %s" % (mtu, p.hex())],
                                     "input": "server type S%d (%s), MTU %d, request %s" % (k, fam[k][0], mtu, p.hex())})
    top_handle_probe(ctx, pid, monitor, res)
    res.exhaustive = False
    res.samples = [" ; ".join(x[:80] for x in s[:5]) for s in sessions[-2:]]
    res.extra["server_types_used"] = sorted(tables.keys())
    return res


P = "BluetoeModel.AttDiscovery."
H = "BluetoeModel.AttHandles."
C02_THEOREMS = [P + t for t in ("range_check", "slice_eq_inRange", "find_information_spec", "find_information_prefix_partial",
                                "read_by_type_spec", "matches_t16", "mkFilter_16", "read_by_group_only_primary", "ofDecl_WF",
                                # enumeration ("repeat from last+1 enumerates every matching attribute exactly once")
                                "clientLoop_complete", "findInformation_view", "readByType_view", "readByGroupType_view",
                                "find_information_enumerate_all", "find_information_enumerate_uniform",
                                "read_by_type_enumerate_all", "read_by_type_enumerate_uniform",
                                "read_by_group_enumerate_all", "read_by_group_complete", "groupCut_prefix",
                                # bridge: Db.SvcWF derived for the table of every declaration (DeclBridge.lean)
                                "ofDecl_SvcWF", "length_table", "read_by_group_enumerate_all_decl",
                                # the client's byte parser (ClientParse.lean): parse (encode items) = some items
                                "chunks_roundtrip", "parse_encodeTuples", "parse_encodeAttrs", "parse_encodeGroups",
                                "parse_encodeRanges")] + \
               [H + t for t in ("handles_strict_mono", "handles_nonzero", "first_index_count")]
C02_WITNESSES = [P + t for t in ("find_information_skips_witness", "read_by_type_unreadable_witness", "read_by_type_128bit_witness",
                                 "t128_never_matches", "read_by_type_skips_witness",
                                 "find_information_enumerate_witness", "find_information_noskip_fails_witness",
                                 "read_by_type_enumerate_unreadable_witness", "read_by_type_enumerate_size_witness",
                                 "read_by_type_noskip_fails_witness")]
C03_THEOREMS = [P + t for t in ("read_by_group_only_primary", "find_by_type_value_only_primary", "groupLoop_sound", "findLoop_sound",
                                "range_check", "ofDecl_WF",
                                # completeness
                                "read_by_group_complete", "groupCut_prefix", "groupCut_head", "groupLoop_out", "readByGroupType_view",
                                "read_by_group_enumerate_all", "primaries_sorted",
                                # completeness / enumeration, Find By Type Value (PropsFind.lean, EnumFind*.lean)
                                "find_by_type_value_complete", "find_by_type_value_complete_bytes", "find_by_type_value_enumerate_all",
                                "serviceRanges_spec", "find_by_type_value_ranges_sorted", "find_by_type_value_other_type",
                                "find_by_type_value_other_length", "findLoop_out", "findByTypeValue_view", "candF_eq_candG",
                                "groupEndIndex_of_lastIndex", "findByTypeValue_prefixResponder", "clientLoop_complete",
                                # the same over every server declaration (DeclBridge.lean): Db.SvcWF (ofDecl d) derived
                                "ofDecl_SvcWF", "length_table", "render_readable", "read_by_group_complete_decl",
                                "find_by_type_value_complete_decl", "primaries_sorted_decl",
                                "read_by_group_enumerate_all_decl", "find_by_type_value_enumerate_all_decl",
                                # the client's byte parser, end to end over declarations (ClientParse.lean)
                                "chunks_roundtrip", "parse_encodeRanges", "parse_encodeGroups", "serviceRanges_fit",
                                "ofDecl_Fits", "client_find_by_type_value_decl")]
IMPORTS = ["BluetoeModel.AttDiscovery.Props", "BluetoeModel.AttDiscovery.PropsEnum", "BluetoeModel.AttDiscovery.PropsGroup",
           "BluetoeModel.AttDiscovery.PropsFind", "BluetoeModel.AttDiscovery.DeclBridge", "BluetoeModel.AttDiscovery.ClientParse",
           "BluetoeModel.AttHandles.Props"]

PROPS = {
    "C02": dict(
        theorems=C02_THEOREMS, witnesses=C02_WITNESSES,
        imports=IMPORTS,
        run=lambda ctx, replay_path=None: run(ctx, "C02"),
        level="proof",
        technique="Lean 4 proof over every strictly ascending attribute table (index interval = requested handle range; selection loops are sublists / prefixes of it; client sub-procedure loop proved complete against any prefix responder) + differential correspondence of the four discovery handlers with the real server<>::l2cap_input",
        level_text="For the fixed handlers (fixes/attdisc-01..03), every well-formed table, start <= end, MTU >= 23: the index interval computed from the two handles is exactly the set of attributes with start <= handle <= end and never leaves the table; Find Information answers Attribute Not Found iff that set is empty and otherwise returns a sublist of it (in-range, ascending, own type) starting with its first element; Read By Type returns handles of in-range attributes of the requested type in ascending order and is never Attribute Not Found while a readable match exists; Read By Group Type returns only in-range services. Enumeration sentence: the client loop 'request, continue behind the last returned handle / end group handle, stop at an Error Response' is mechanised (clientLoop) over the modelled handlers (views proved byte-equal to the handlers) and proved to return exactly the matching attributes, each once, ascending, with at most end+1-start requests: for Read By Group Type unconditionally (read_by_group_enumerate_all; the handler stops at a UUID size change instead of skipping), for Find Information / Read By Type under the precise per-request no-skip condition (FindInformationNoSkip / ReadByTypeNoSkip = the selection loop returns a prefix) and hence for uniform UUID size / all matching values readable and of one length. Partial: the sentence is false for mixed UUID sizes, unreadable or differently sized matching values (find_information_enumerate_witness, read_by_type_enumerate_unreadable_witness, read_by_type_enumerate_size_witness; known findings) and 'not found only when none exists' fails for unreadable attributes and true 128-bit types. Client byte parser (ClientParse.lean): the record parsers for the four discovery responses are modelled and proved to be left inverses of the encoders for uniform record size and 16-bit handles (chunks_roundtrip; parse_encodeTuples / _Attrs / _Groups / _Ranges), so the item lists the loop consumes are what a client reads from the bytes; the composition handler bytes -> parser is stated end to end for Find By Type Value (client_find_by_type_value_decl, C03), for the other three it is the two theorems (view + parse) side by side. Declarations whose last handle is 0xFFFF are outside the model (uint16 end_handle wraps) and are checked on the real code only: known findings C02:last-handle-0xffff:*.",
        level_note="Trusted: Lean kernel + standard axioms; model = code as far as the differential check samples it (24 server types x boundary handle pairs x all present types x MTUs); write_128bit_uuid is modelled as 'the entry's UUID' (checked differentially); attribute values are static in the harness.",
        design_ref="§5 C02",
        assumptions=["fixes/attdisc-01-end-handle-in-gap, -03-read-by-type-0x0001 applied (the check reports a VIOLATION on the unpatched tree)",
                     "server declaration without include_service<> (C04 known finding) for the bridge ofDecl_WF"],
    ),
    "C03": dict(
        theorems=C03_THEOREMS, witnesses=[],
        imports=IMPORTS,
        run=lambda ctx, replay_path=None: run(ctx, "C03"),
        level="proof",
        technique="Lean 4 loop-invariant proof over every table and service list (every reported group is a declared service whose declaration attribute has type «Primary Service», in range, with its real last handle) + differential correspondence with the real handlers",
        level_text="For the fixed handlers (fixes/attdisc-01, -02): every group in a Read By Group Type «Primary Service» response and every range in a Find By Type Value «Primary Service» response is, for every table, service list, range and MTU, a declared service whose declaration attribute has type 0x2800 (never a secondary service), lies in the requested range, carries the service's UUID / the requested UUID and ends at the handle of the service's last attribute (soundness). Completeness, Read By Group Type: for every table whose service list partitions it (Db.SvcWF), the response is exactly groupCut(MTU-2) of the declared primary services whose first handle is in range - a non-empty prefix ending only at a service UUID of the other size or when the MTU is used up, nothing skipped - and Attribute Not Found iff there is none (read_by_group_complete, groupCut_prefix, groupCut_head); the Discover All Primary Services loop returns every primary service in range exactly once, in order (read_by_group_enumerate_all). Completeness, Find By Type Value: for every such table, range, 2- or 16-byte value and MTU >= 23 the response is exactly the first (MTU-1)/4 of the declared primary services whose declaration value equals the requested value octet-wise and whose first handle is in range (serviceRanges; found handle = first handle, group end handle = handle of the service's last attribute) - a prefix cut only by the MTU, nothing skipped - and Attribute Not Found iff there is none (find_by_type_value_complete, _complete_bytes for the response bytes, serviceRanges_spec); the Discover Primary Service by Service UUID loop returns every matching primary service in range exactly once, in order (find_by_type_value_enumerate_all); the full statements hold, no input class had to be excluded (another attribute type / value length: Error Response, find_by_type_value_other_type / _other_length). Bridge to declarations: Db.SvcWF (ofDecl d) is derived for every server declaration d (ofDecl_SvcWF: number_of_attributes >= 1 per service, the per-service counts sum to the table length, every attribute rendered with type 0x2800 is readable) under the single decidable hypothesis NoFakePrimary d (no characteristic declared with value type 0x2800 AND an unreadable value - a declaration the library does not forbid, exFake), so the completeness and enumeration theorems hold for every declared server without include_service<> (read_by_group_complete_decl, find_by_type_value_complete_decl, *_enumerate_all_decl). Client byte parser (ClientParse.lean): the record parser every client runs over a Find By Type Value / Read By Group Type response is modelled (chunks: rejects a payload that is not a whole number of records) and proved to invert the encoders for every item list the handlers produce (parse_encodeRanges, parse_encodeGroups); client_find_by_type_value_decl composes handler bytes and parser for every declared server: parsing the answer yields exactly the first (MTU-1)/4 matching primary services in range, and nothing is parsed iff there is none. Partial: declarations whose last handle is 0xFFFF are outside the model: known findings C03:last-handle-0xffff:*.",
        level_note="Trusted: Lean kernel + standard axioms; model = code as far as the differential check samples it; the secondary_service<> struct form does not compile inside a server, only service<…, is_secondary_service> is in the family.",
        design_ref="§5 C03",
        assumptions=["fixes/attdisc-01-end-handle-in-gap and -02-secondary-services applied (the check reports a VIOLATION on the unpatched tree)"],
    ),
}
