"""C15 / C16 / C17 — SN/NESN flow control of ll_data_pdu_buffer (link layer data delivery, packet
counters, MIC failure path).  See docs/lldata.md."""
import hashlib
import itertools
import os
import re
import subprocess

from vlib import core
from vlib.core import Result

NAME = "lldata"
LEAN_MODULE = "BluetoeModel.LlData"
DRIVER = "drv_lldata"
HARNESS_DESC = ("harness/lldata.cpp (real ll_data_pdu_buffer<TX,RX,mock radio>, 8 size/layout variants incl. three with data length extension, payloads up to 249 bytes); C16 also "
                "harness/lldata/nrf52_ccm.cpp (the same with the real nrf52.cpp + security_tool_box.cpp on emulated registers)")
HARNESS = {
    "default": dict(src="harness/lldata.cpp"),
    # C16: the same harness plus the real nRF52 binding (nrf52.cpp, security_tool_box.cpp) on emulated registers
    "nrf52": dict(src="harness/lldata/nrf52_ccm.cpp", std="c++14",
                  repo_srcs=["bluetoe/utility/address.cpp", "bluetoe/link_layer/delta_time.cpp"],
                  includes=["bluetoe/bindings/nordic/include", "bluetoe/bindings/nordic/nrf52/include",
                            "bluetoe/bindings/nordic/uECC", "tests/test_tools"],
                  abs_includes=["harness/lldata/nrf_stub"],
                  flags=core.DEFAULT_FLAGS + ["-fpermissive", "-no-pie"],
                  c_srcs=["bluetoe/bindings/nordic/uECC/uECC.c", "tests/test_tools/aes.c"],
                  c_defines=["uECC_CURVE=uECC_secp256r1"]),
}

# reset k -> (max body the central may send, max body the link layer may commit)
CONFIGS = {0: (27, 27), 1: (27, 27), 2: (48, 48), 3: (27, 27), 4: (58, 58),
           # data length extension: max_rx_size = max_tx_size = 251 (the buffer's max_buffer_size, header included)
           5: (249, 249), 6: (249, 249), 7: (249, 249)}
DLE_CONFIGS = [5, 6, 7]
# payload lengths around the boundaries of every narrower reading of the 8 bit length field (5, 6, 7 bit) and the ends
BOUNDARY_LENGTHS = [1, 27, 31, 32, 33, 63, 64, 65, 127, 128, 129, 191, 192, 193, 248, 249, 250, 251]
EMPTY = (1, b"")


# ------------------------------------------------------------------------------------------------
# PDUs on the wire format of the line protocol
# ------------------------------------------------------------------------------------------------
def hexs(b):
    return b.hex() if b else "-"


def parse_pdu(s):
    """'0e01dd' -> dict(llid, nesn, sn, md, rfu, body)"""
    if s in ("none", "-", ""):
        return None
    raw = bytes.fromhex(s)
    h = raw[0]
    return dict(llid=h & 3, nesn=bool(h & 4), sn=bool(h & 8), md=bool(h & 16), rfu=h >> 5, body=raw[2:], len=raw[1])


def fields(line):
    return dict(w.split("=", 1) for w in line.split() if "=" in w)


# ------------------------------------------------------------------------------------------------
# generators
# ------------------------------------------------------------------------------------------------
def rand_body(rng, maxlen, nonempty=False):
    r = rng.random()
    if maxlen > 60 and r < 0.5:
        # data length extension: emphasis on the boundary lengths (both directions use this function)
        n = rng.choice([b for b in BOUNDARY_LENGTHS if b <= maxlen])
    elif r < 0.6:
        n = rng.randrange(1, 5)
    elif r < 0.75:
        n = maxlen
    elif r < 0.85:
        n = max(1, maxlen - rng.randrange(0, 3))
    else:
        n = rng.randrange(1, maxlen + 1)
    return bytes(rng.randrange(256) for _ in range(n))


def central_msg(rng, maxlen, shape):
    """what the central would send next if it has nothing unacknowledged"""
    r = rng.random()
    if shape == "idle":
        if r < 0.8:
            return EMPTY
    elif r < 0.2:
        return EMPTY
    if r > 0.97:
        return (0, rand_body(rng, maxlen))      # reserved LLID with payload: counted, not stored
    if r > 0.94:
        return (rng.choice([2, 3]), b"")          # zero length start / control PDU
    return (rng.choice([1, 2, 2, 3]), rand_body(rng, maxlen))


def gen_system_session(rng, faults, length=None, cfg=None, shape=None):
    """reset, then link layer ops (tx / free / stop / pending / state) interleaved with exchanges
    `ev` between the specification central and the buffer under an arbitrary fault list"""
    cfg = rng.choice(list(CONFIGS)) if cfg is None else cfg
    shape = shape or rng.choice(["clean", "lossy", "lossy", "bursty", "rxfull", "txheavy", "idle"])
    length = length or rng.randrange(8, 60)
    max_rx, max_tx = CONFIGS[cfg]
    p_fault = {"clean": 0.03, "lossy": 0.35, "bursty": 0.15, "rxfull": 0.15, "txheavy": 0.2, "idle": 0.2}[shape]
    p_free = {"rxfull": 0.04}.get(shape, 0.25)
    p_tx = {"txheavy": 0.45, "idle": 0.05}.get(shape, 0.2)
    ops = ["reset %d" % cfg]
    burst = 0
    events = 0
    for _ in range(length):
        r = rng.random()
        if r < p_tx:
            ops.append("tx %d %s" % (rng.choice([1, 2, 2, 3]), hexs(rand_body(rng, max_tx))))
        elif r < p_tx + p_free:
            ops.append("free")
        elif r < p_tx + p_free + 0.03:
            ops.append(rng.choice(["pending", "state"]))
        elif r < p_tx + p_free + 0.035 and shape != "clean":
            ops.append("stop")
        else:
            llid, body = central_msg(rng, max_rx, shape)
            if burst:
                burst -= 1
                f1 = rng.choice([f for f in faults if f != "ok"] or ["ok"])
                f2 = rng.randrange(2)
            elif rng.random() < p_fault:
                f1 = rng.choice(faults)
                f2 = rng.randrange(2)
                if shape == "bursty":
                    burst = rng.randrange(1, 6)
            else:
                f1, f2 = "ok", 1
            ops.append("ev %s %d %d %s" % (f1, f2, llid, hexs(body)))
            events += 1
    # settle (clean exchanges of empty PDUs) and drain the receive buffer
    ops += ["ev ok 1 1 -"] * 3
    ops += ["free"] * (events + 4)
    ops.append("state")
    return ops


def gen_raw_session(rng, faults, length=None):
    """malformed stream: receptions with arbitrary header bytes (a central that does not follow the
    protocol, RFU bits, MD), direct next_transmit calls"""
    cfg = rng.choice(list(CONFIGS))
    max_rx, max_tx = CONFIGS[cfg]
    ops = ["reset %d" % cfg]
    for _ in range(length or rng.randrange(5, 40)):
        r = rng.random()
        if r < 0.6:
            body = b"" if rng.random() < 0.25 else rand_body(rng, max_rx)
            h = rng.randrange(256) if rng.random() < 0.3 else rng.randrange(32)
            ops.append("rx %s %s" % (rng.choice(faults), bytes([h, len(body)]).hex() + body.hex()))
        elif r < 0.75:
            ops.append("tx %d %s" % (rng.randrange(4), hexs(rand_body(rng, max_tx))))
        elif r < 0.85:
            ops.append("free")
        elif r < 0.9:
            ops.append("nt")
        elif r < 0.92:
            ops.append("stop")
        else:
            ops.append(rng.choice(["pending", "state"]))
    ops += ["free"] * 4 + ["state"]
    return ops


def length_sweep_session(cfg, lengths=None, enc=None, fault_every=0):
    """every payload length the buffer admits, in both directions, each PDU transmitted, acknowledged and delivered:
    the link layer commits an L byte PDU, the central sends a new L byte PDU (answered by the committed PDU), an empty
    PDU of the central acknowledges it. `enc`: ops that start encryption first (nrf52 harness). `fault_every`: every n-th
    round the answer is lost once and the retransmission hits a MIC failure (as on a real encrypted link)."""
    max_rx, max_tx = CONFIGS[cfg]
    lengths = list(range(1, max(max_rx, max_tx) + 1)) if lengths is None else lengths
    ops = ["reset %d" % cfg] + list(enc or [])
    for i, n in enumerate(lengths):
        body = bytes((n + j) % 256 for j in range(n))
        if n <= max_tx:
            ops.append("tx %d %s" % (2 if n % 2 else 3, hexs(body)))
        c = hexs(body[:max_rx])
        if fault_every and i % fault_every == fault_every - 1:
            ops += ["ev ok 0 2 %s" % c, "ev mic 1 2 %s" % c]
        else:
            ops.append("ev ok 1 2 %s" % c)
        ops += ["ev ok 1 1 -", "free"]
    return ops + ["ev ok 1 1 -", "free", "free", "state"]


TRAFFIC_SHAPES = {
    # (central messages used in turn, link layer op before each event or None)
    "c2p": ([(2, b"\x01\x02"), (1, b"\x03"), (3, b"\x04\x05\x06")], None),
    "p2c": ([EMPTY], "tx 2 a1a2"),
    "both": ([(2, b"\x11"), EMPTY, (3, b"\x12\x13")], "tx 1 b1"),
}
PATTERN_ALPHABET = [("ok", 1), ("ok", 0), ("lost", 0), ("crc", 1)]


def enumerate_patterns(n_events, alphabet=PATTERN_ALPHABET, cfg=0):
    """every fault pattern of n_events exchanges x 3 traffic shapes"""
    sessions = []
    for shape, (msgs, txop) in sorted(TRAFFIC_SHAPES.items()):
        for pat in itertools.product(alphabet, repeat=n_events):
            ops = ["reset %d" % cfg]
            for i, (f1, f2) in enumerate(pat):
                if txop and i % 2 == 0:
                    ops.append(txop)
                llid, body = msgs[i % len(msgs)]
                ops.append("ev %s %d %d %s" % (f1, f2, llid, hexs(body)))
                if i % 3 == 2:
                    ops.append("free")
            ops += ["ev ok 1 1 -"] * 2 + ["free"] * (n_events + 2) + ["state"]
            sessions.append(ops)
    return sessions


# ------------------------------------------------------------------------------------------------
# two pass execution: the allocation outcomes observed on the real rings are handed to the model
# ------------------------------------------------------------------------------------------------
def annotate(ops, outs):
    res = []
    for k, op in enumerate(ops):
        w = op.split()[0]
        out = outs[k] if k < len(outs) else ""
        if w == "tx":
            res.append(op + (" a=0" if out == "full" else " a=1"))
        elif w in ("rx", "ev"):
            res.append(op + (" a=0" if out.startswith("a=0") else " a=1"))
        elif w == "enc" and op.split()[1] == "setup":
            # the model is told IVm and the IVs that setup_encryption() returned (random_number32() is C37's business)
            res.append("enc setup %s %s" % (op.split()[4], fields(out).get("ivs", "-")))
        else:
            res.append(op)
    return res


def run_pair(ctx, sessions, proj, key="default"):
    impl = ctx.run_impl(sessions, key)
    model = ctx.run_model([annotate(ops, r["out"]) for ops, r in zip(sessions, impl)])
    return impl, model, core.compare_sessions(sessions, impl, model, proj)


def shrink_disagreement(ctx, ops, proj, key="default"):
    return ctx.shrink(ops, lambda cand: bool(run_pair(ctx, [cand], proj, key)[2]), budget=60)


COUNTERS = re.compile(r" rc=\d+ tc=\d+")


def proj_c15(op, line):
    """everything but the packet counter callbacks"""
    return COUNTERS.sub("", line)


def proj_c16(op, line):
    """only the allocation outcome and the packet counter callbacks"""
    f = fields(line)
    if "rc" in f:
        return "a=%s rc=%s tc=%s" % (f.get("a", "-"), f["rc"], f["tc"])
    return ""


def proj_nonce(op, line):
    """C16 on the nrf52 harness: allocation outcome, counter callbacks, the nonce inputs in the CCM configuration, the IV"""
    f = fields(line)
    if "rc" in f:
        return "a=%s rc=%s tc=%s rn=%s tn=%s" % (f.get("a", "-"), f["rc"], f["tc"], f.get("rn", ""), f.get("tn", ""))
    if "iv" in f:
        return "iv=" + f["iv"]
    return ""


def proj_c17(op, line):
    """receive direction only: allocation outcome, the acknowledgement (NESN) in the answer, the
    delivered PDUs"""
    w = op.split()[0]
    if w in ("rx", "ev", "nt"):
        f = fields(line)
        r = parse_pdu(f.get("r", "none")) if "r" in f else None
        return "a=%s nesn=%s" % (f.get("a", "-"), "-" if r is None else int(r["nesn"]))
    if w == "free":
        return line
    if w == "state":
        return fields(line).get("nesn", line)
    return ""


# ------------------------------------------------------------------------------------------------
# the monitor: an observer of the air interface and of the link layer interface that evaluates the
# property statements with its own (third) implementation of the Core specification's central
# ------------------------------------------------------------------------------------------------
class Violation(Exception):
    def __init__(self, key, what, k):
        Exception.__init__(self, what)
        self.key, self.what, self.k = key, what, k


def is_data(m):
    return len(m[1]) != 0


def deliverable(m):
    return len(m[1]) != 0 and m[0] != 0


def monitor(pid, ops, outs, check_counters=False):
    """raises Violation(key, what, op index). Only for system sessions (no raw rx / nt ops)."""
    c_sn = c_nesn = False
    inflight = None
    new_c = []             # N: the new PDUs of the central, in order
    accepted = 0           # how many of N the peripheral has acknowledged (by its NESN)
    delivered = []         # D: what free handed to the upper layer
    committed = []         # T: commits while running
    stopped = False
    p_new = []             # new PDUs of the peripheral seen on the air (messages)
    last_r = None
    c_got = []             # new PDUs accepted by the central
    for k, (op, out) in enumerate(zip(ops, outs)):
        w = op.split()
        if w[0] == "reset":
            continue
        if w[0] == "stop":
            stopped = True
        elif w[0] == "tx":
            if out == "ok" and not stopped:
                committed.append((int(w[1]), bytes.fromhex(w[2])))
        elif w[0] == "free":
            if out != "none":
                x = parse_pdu(out)
                delivered.append((x["llid"], x["body"]))
                want = [m for m in new_c[:accepted] if deliverable(m)]
                if delivered != want[:len(delivered)]:
                    raise Violation("%s:delivered-not-the-acknowledged-new-pdus-in-order" % pid,
                                    "op %d free handed %s to the upper layer; the new PDUs of the central acknowledged so far are %s, delivered before: %s"
                                    % (k, out, [(a, b.hex()) for a, b in want], [(a, b.hex()) for a, b in delivered[:-1]]), k)
        elif w[0] == "ev":
            f1, f2 = w[1], w[2] == "1"
            f = fields(out)
            a = f["a"] == "1"
            if inflight is None:
                inflight = (int(w[3]), b"" if w[4] == "-" else bytes.fromhex(w[4]))
                new_c.append(inflight)
            x = parse_pdu(f["c"])
            if (x["llid"], x["body"], x["sn"], x["nesn"]) != (inflight[0], inflight[1], c_sn, c_nesn):
                raise Violation("%s:harness-central-not-the-specification" % pid,
                                "op %d: the harness' central sent %s, the specification central sends LLID %d SN %d NESN %d %s"
                                % (k, f["c"], inflight[0], c_sn, c_nesn, inflight[1].hex()), k)
            r = parse_pdu(f["r"])
            if f1 == "lost":
                if r is not None:
                    raise Violation("%s:answer-without-reception" % pid, "op %d: answer %s to a lost PDU" % (k, f["r"]), k)
                continue
            if r is None:
                raise Violation("%s:no-answer" % pid, "op %d: no answer" % k, k)
            # ---- receive direction: what does the NESN of the answer acknowledge?
            was_new = accepted == len(new_c) - 1
            now = len(new_c) if r["nesn"] != c_sn else len(new_c) - 1
            if now < accepted:
                raise Violation("%s:acknowledgement-withdrawn" % pid, "op %d: NESN went back" % k, k)
            if now > accepted:
                valid = f1 == "ok" or (f1 == "mic" and len(inflight[1]) == 0)
                if f1 == "mic" and len(inflight[1]) != 0:
                    raise Violation("%s:mic-failure-acknowledges-new-pdu" % pid,
                                    "op %d: the new PDU %s arrived with a valid CRC and an invalid MIC and is acknowledged by the answer %s (NESN %d)"
                                    % (k, f["c"], f["r"], r["nesn"]), k)
                if not valid:
                    raise Violation("%s:acknowledged-without-valid-reception" % pid,
                                    "op %d: PDU %s (fault %s) is acknowledged by the answer %s" % (k, f["c"], f1, f["r"]), k)
                if not a:
                    raise Violation("%s:full-receive-buffer-acknowledges" % pid,
                                    "op %d: no receive buffer was available but the answer %s acknowledges %s" % (k, f["r"], f["c"]), k)
            elif was_new and f1 == "ok" and a:
                raise Violation("%s:valid-new-pdu-not-accepted" % pid,
                                "op %d: the new PDU %s arrived intact and a receive buffer was available, but the answer %s does not acknowledge it"
                                % (k, f["c"], f["r"]), k)
            accepted = now
            # ---- transmit direction
            m = (r["llid"], r["body"])
            if last_r is not None and r["sn"] == last_r["sn"]:
                if m != (last_r["llid"], last_r["body"]):
                    raise Violation("%s:retransmission-differs" % pid,
                                    "op %d: answer %s has the SN of the previous answer but another content" % (k, f["r"]), k)
                if c_nesn != last_r["sn"] and f1 == "ok" and a:
                    raise Violation("%s:acknowledged-pdu-transmitted-again" % pid,
                                    "op %d: the central's PDU %s acknowledges the previous answer (NESN %d), it arrived intact, but the answer %s repeats it"
                                    % (k, f["c"], c_nesn, f["r"]), k)
            else:
                if last_r is not None and not (c_nesn != last_r["sn"] and f1 in ("ok", "mic") and a):
                    raise Violation("%s:next-pdu-before-acknowledgement" % pid,
                                    "op %d: the peripheral proceeds to a new PDU %s although the central did not acknowledge the previous one (central NESN %d, fault %s)"
                                    % (k, f["r"], c_nesn, f1), k)
                p_new.append(m)
                data = [y for y in p_new if is_data(y)]
                if data != committed[:len(data)]:
                    raise Violation("%s:transmitted-not-the-committed-pdus-in-order" % pid,
                                    "op %d: new PDU %s on the air; committed were %s" % (k, f["r"], [(u, v.hex()) for u, v in committed]), k)
            last_r = r
            if check_counters:
                want_rc = sum(1 for y in new_c[:accepted] if is_data(y))
                want_tc = sum(1 for y in p_new[:-1] if is_data(y))
                if int(f["rc"]) != want_rc:
                    raise Violation("%s:receive-counter-not-the-new-nonempty-pdus" % pid,
                                    "op %d: increment_receive_packet_counter was called %s times, %d new non-empty PDUs were acknowledged"
                                    % (k, f["rc"], want_rc), k)
                if int(f["tc"]) != want_tc:
                    raise Violation("%s:transmit-counter-not-the-acknowledged-nonempty-pdus" % pid,
                                    "op %d: increment_transmit_packet_counter was called %s times, %d non-empty PDUs were transmitted and acknowledged"
                                    % (k, f["tc"], want_tc), k)
            # ---- the central receives the answer
            if f2:
                if r["nesn"] != c_sn:
                    c_sn, inflight = not c_sn, None
                if r["sn"] == c_nesn:
                    c_nesn = not c_nesn
                    c_got.append(m)
            if (f["cs"], int(f["cd"]), int(f["cg"])) != ("%d%d" % (c_sn, c_nesn), len(new_c) - (inflight is not None), len(c_got)):
                raise Violation("%s:harness-central-not-the-specification" % pid,
                                "op %d: central state %s cd=%s cg=%s, specification central: %d%d %d %d"
                                % (k, f["cs"], f["cd"], f["cg"], c_sn, c_nesn, len(new_c) - (inflight is not None), len(c_got)), k)
            data = [y for y in c_got if is_data(y)]
            if data != committed[:len(data)]:
                raise Violation("%s:central-received-not-the-committed-pdus-in-order" % pid, "op %d" % k, k)
    # end of session: the generator drained the receive buffer
    if ops[-1] == "state" and "free" in ops[-3:]:
        want = [m for m in new_c[:accepted] if deliverable(m)]
        if delivered != want:
            raise Violation("%s:acknowledged-pdu-not-delivered" % pid,
                            "after draining, the upper layer got %s; acknowledged new PDUs of the central: %s"
                            % ([(a, b.hex()) for a, b in delivered], [(a, b.hex()) for a, b in want]), len(ops) - 1)
    return dict(new_c=len(new_c), accepted=accepted, p_new=len(p_new), committed=len(committed))


# ------------------------------------------------------------------------------------------------
# runs
# ------------------------------------------------------------------------------------------------
def is_system(ops):
    return not any(o.startswith(("rx ", "nt")) for o in ops)


def evaluate(ctx, res, pid, sessions, proj, check_counters=False):
    impl, model, dis = run_pair(ctx, sessions, proj)
    for d in dis:
        ops = sessions[d["session"]]
        if len(res.disagreements) < 1:
            ops = shrink_disagreement(ctx, ops, proj)
        res.disagreements.append(dict(d, ops=ops))
    for ops, r in zip(sessions, impl):
        outs = r["out"]
        res.evaluations += len(outs)
        res.sessions += 1
        for o in ops[1:]:
            w = o.split()
            res.count(w[0] + (":" + w[1] if w[0] in ("ev", "rx") else ""))
        for o, x in zip(ops, outs):
            if x.startswith("a=0"):
                res.count("reception_without_free_receive_buffer")
            if x == "full":
                res.count("tx_buffer_full")
        if r["crash"]:
            res.failures.append({"key": "%s:crash:%s" % (pid, r["crash"].split(" @")[0]), "what": r["crash"], "ops": ops})
            continue
        if "bad-op" in outs:
            res.failures.append({"key": "%s:generator-out-of-contract" % pid, "what": "bad-op answered", "ops": ops})
            continue
        if not is_system(ops):
            res.count("raw_sessions")
            continue
        try:
            info = monitor(pid, ops, outs, check_counters)
        except Violation as v:
            seen = sum(1 for f in res.failures if f["key"] == v.key)
            res.count("monitor_failures")
            if seen >= 3:
                continue
            if seen >= 1:
                res.failures.append({"key": v.key, "what": v.what, "ops": ops[:v.k + 1]})
                continue

            def violation_of(cand):
                o = ctx.run_impl([cand])[0]
                if o["crash"] or "bad-op" in o["out"]:
                    return None, o["out"]
                try:
                    monitor(pid, cand, o["out"], check_counters)
                except Violation as v2:
                    return v2, o["out"]
                except Exception:
                    pass
                return None, o["out"]

            start = ops[:v.k + 1] + (ops[-3:] if v.k + 4 < len(ops) else [])
            small = ctx.shrink(start, lambda cand, key=v.key: getattr(violation_of(cand)[0], "key", None) == key, budget=60)
            v2, observed = violation_of(small)
            res.failures.append({"key": v.key, "what": (v2 or v).what, "ops": small, "observed": observed[-6:]})
            continue
        retrans = sum(1 for o in ops if o.startswith("ev") and not o.startswith("ev ok 1"))
        res.count("sessions_with_faults", retrans > 0)
        res.count("central_new_pdus", info["new_c"])
        res.count("peripheral_new_pdus", info["p_new"])
        if retrans and info["new_c"] > 2:
            res.distinct.add(hashlib.sha1("\n".join(ops).encode()).hexdigest())
    return impl


def corpus_sessions(ctx):
    return [ops for _, ops in ctx.corpus()]


def run_c15(ctx, replay_path=None):
    res = Result()
    faults = ["ok", "lost", "crc"]
    res.rule = ("sessions = reset k (k = <61,61>, <100,29>, <100,100> max size 50, <100,100> and <255,255> with the encrypted "
                "PDU layout; <520,520>, <300,780> encrypted layout, <254,254> with max rx/tx size 251, payload lengths there drawn "
                "around 27/32/64/128/192/249 and swept 1..249), then link layer ops (tx = allocate+commit, free = next_received+free_received, stop, pending, state) "
                "interleaved with exchanges `ev f1 f2 msg`: a specification central (re)transmits, fault f1 in ok/lost/crc on the way "
                "to the buffer (dispatched as the nRF52 ISR does: received / next_transmit / silence), f2 = answer reaches the central; "
                "7 traffic/fault shapes incl. receive buffer kept full and long loss bursts; plus a smaller raw stream with arbitrary "
                "header bytes. Each session runs on the real buffer, the observed allocation outcomes are handed to the Lean model "
                "(rings abstracted), outputs (answers, delivered PDUs, central state, private sequence state) are compared line by "
                "line without the counter fields; an independent Python observer with its own specification central evaluates "
                "exactly-once in-order delivery, acknowledgement only after storing, retransmission until acknowledged, committed "
                "order. distinct = distinct sessions with at least one fault and more than two new central PDUs")
    sessions = corpus_sessions(ctx)
    n = 2500 if ctx.thorough else 300
    for i in range(n):
        sessions.append(gen_system_session(ctx.rng, faults))
    for i in range(n // 5):
        sessions.append(gen_raw_session(ctx.rng, faults))
    depth = 6 if ctx.thorough else 4
    sessions += enumerate_patterns(depth)
    # data length extension: every payload length 1..249 in both directions
    sessions += [length_sweep_session(cfg) for cfg in (DLE_CONFIGS if ctx.thorough else DLE_CONFIGS[:1])]
    if ctx.thorough:
        sessions += enumerate_patterns(4, cfg=1) + enumerate_patterns(4, cfg=3)
    res.extra["exhaustive_small_scope"] = ("every pattern over {(ok,answer received),(ok,answer lost),(lost),(crc,answer received)} "
                                           "of %d exchanges x 3 traffic shapes on <61,61>" % depth
                                           + ("; 4 exchanges on <100,29> and on the encrypted layout" if ctx.thorough else ""))
    evaluate(ctx, res, "C15", sessions, proj_c15)
    res.samples = [" ; ".join(s[:10]) for s in sessions[len(corpus_sessions(ctx)):][:3]]
    return res


def run_c17(ctx, replay_path=None):
    res = Result()
    faults = ["ok", "mic", "mic", "lost", "crc"]
    res.rule = ("as C15 with MIC failures (valid CRC, invalid MIC -> acknowledge( read_buffer ) as the nRF52 ISR dispatches) at "
                "arbitrary positions of the PDU stream, on new PDUs and on retransmissions; compared through the receive direction "
                "projection (allocation outcome, NESN of the answer, delivered PDUs); the observer checks that a new PDU failing "
                "its MIC is not acknowledged, and that every acknowledged PDU was delivered exactly once; thorough: every pattern over "
                "{ok, ok/answer lost, mic, mic/answer lost, lost} of 5 exchanges x 3 traffic shapes")
    sessions = corpus_sessions(ctx)
    n = 2500 if ctx.thorough else 300
    for i in range(n):
        sessions.append(gen_system_session(ctx.rng, faults))
    for i in range(n // 5):
        sessions.append(gen_raw_session(ctx.rng, ["ok", "mic", "mic", "crc", "lost"]))
    alphabet = [("ok", 1), ("ok", 0), ("mic", 1), ("mic", 0), ("lost", 0)]
    depth = 5 if ctx.thorough else 3
    sessions += enumerate_patterns(depth, alphabet)
    sessions.append(length_sweep_session(6 if ctx.thorough else 5, fault_every=2))
    res.extra["exhaustive_small_scope"] = ("every pattern over %s of %d exchanges x 3 traffic shapes; every payload length 1..249 with a "
                                           "MIC failing retransmission every second PDU" % (alphabet, depth))
    evaluate(ctx, res, "C17", sessions, proj_c17)
    res.count("mic_faults", sum(1 for s in sessions for o in s if o.startswith(("ev mic", "rx mic"))))
    res.samples = [" ; ".join(s[:10]) for s in sessions[len(corpus_sessions(ctx)):][:3]]
    return res


# ------------------------------------------------------------------------------------------------
# C16: the 40 bit counter of the nRF52 binding. nrf52.cpp needs the vendor headers, so the three
# member functions and the struct are cut out of the repository's sources *as text* and compiled
# into a tiny host program (rebuilt whenever that text changes).
# ------------------------------------------------------------------------------------------------
COUNTER_MAIN = r"""
#include <cstdint>
#include <cstdio>
#include <cstdlib>
#include <cstring>
#include <bluetoe/bits.hpp>     // the repository's little endian helpers (details::write_32bit)
namespace bluetoe { namespace nrf52_details {
    namespace details = ::bluetoe::details;
%(struct)s
%(impl)s
} }
int main()
{
    unsigned long long n, k;
    while ( std::scanf( "%%llu %%llu", &n, &k ) == 2 )
    {
        bluetoe::nrf52_details::counter c;
        if ( c.low != 0 || c.high != 0 ) { std::puts( "ctor-not-zero" ); continue; }
        c.low = n & 0xffffffffull; c.high = n >> 32;
        for ( unsigned long long i = 0; i != k; ++i ) c.increment();
        // exactly sized heap block: copy_to must write 5 bytes
        std::uint8_t* out = static_cast< std::uint8_t* >( std::malloc( 5 ) );
        c.copy_to( out );
        for ( int i = 0; i != 5; ++i ) std::printf( "%%02x", out[ i ] );
        std::puts( "" );
        std::free( out );
    }
}
"""


def extract_counter_source():
    hpp = open(os.path.join(core.REPO, "bluetoe/bindings/nordic/nrf52/include/bluetoe/nrf52.hpp")).read()
    cpp = open(os.path.join(core.REPO, "bluetoe/bindings/nordic/nrf52/nrf52.cpp")).read()
    m = re.search(r"struct counter \{.*?\n        \};", hpp, re.S)
    if not m:
        raise RuntimeError("struct counter not found in nrf52.hpp")
    impl = []
    for name in (r"counter::counter\(\)", r"void counter::increment\(\)", r"void counter::copy_to\([^)]*\) const"):
        mm = re.search(r"^    " + name + r".*?^    \}", cpp, re.S | re.M)
        if not mm:
            raise RuntimeError("%s not found in nrf52.cpp" % name)
        impl.append(mm.group(0))
    return COUNTER_MAIN % dict(struct=m.group(0), impl="\n".join(impl))


def build_counter_exe():
    src = extract_counter_source()
    bits = open(os.path.join(core.REPO, "bluetoe/utility/include/bluetoe/bits.hpp")).read()
    key = hashlib.sha256((src + bits).encode()).hexdigest()[:16]
    d = os.path.join(core.CACHE, "harness")
    os.makedirs(d, exist_ok=True)
    exe = os.path.join(d, "nrfcounter_%s" % key)
    if not os.path.exists(exe):
        cpp = exe + ".cpp"
        open(cpp, "w").write(src)
        rc, out, err = core.run_proc(["g++", "-std=c++11", "-O1", "-g", "-fsanitize=address,undefined",
                                      "-fno-sanitize-recover=all", "-w",
                                      "-I", os.path.join(core.REPO, "bluetoe/utility/include"), cpp, "-o", exe + ".tmp"], timeout=600)
        os.unlink(cpp)
        if rc != 0:
            raise RuntimeError("counter extraction build failed: " + err[-1500:])
        os.rename(exe + ".tmp", exe)
    return exe


def check_counter(ctx, res):
    """counter::increment / copy_to of the repository against the model (driver op `cnt n k`) and
    against plain 40 bit arithmetic"""
    exe = build_counter_exe()
    cases = []
    for base in (0, 1, 255, 256, 65535, 2 ** 24 - 1, 2 ** 32 - 3, 2 ** 32 - 1, 2 ** 32, 2 ** 33 - 1,
                 255 * 2 ** 32 - 1, 2 ** 39 - 2, 2 ** 39, 2 ** 40 - 3, 2 ** 40 - 1):
        for k in (0, 1, 2, 3, 5):
            cases.append((base, k))
    for _ in range(3000 if ctx.thorough else 300):
        r = ctx.rng.random()
        n = ctx.rng.randrange(2 ** 40) if r < 0.5 else (ctx.rng.randrange(256) * 2 ** 32 + 2 ** 32 - 1 - ctx.rng.randrange(4))
        cases.append((n, ctx.rng.randrange(0, 9)))
    rc, out, err = core.run_proc([exe], "".join("%d %d\n" % c for c in cases), timeout=300)
    impl = out.split()
    model = ctx.run_model([["cnt %d %d" % c for c in cases]])[0]["out"]
    res.count("counter_cases", len(cases))
    res.evaluations += len(cases)
    if rc != 0 or len(impl) != len(cases):
        res.failures.append({"key": "C16:counter-build-crash", "what": "counter program: rc=%s %s" % (rc, err[-300:]), "input": ""})
        return
    for (n, k), a, b in zip(cases, impl, model):
        want = ((n + k) % 2 ** 40).to_bytes(5, "little").hex()
        if a != b:
            res.disagreements.append({"ops": ["cnt %d %d" % (n, k)], "op_index": 0, "op": "cnt %d %d" % (n, k), "impl": a, "model": b})
        if a != want:
            res.failures.append({"key": "C16:counter-increment-not-40-bit-successor",
                                 "what": "counter %d incremented %d times: copy_to gives %s, expected %s" % (n, k, a, want),
                                 "input": "cnt %d %d" % (n, k)})
            break


# ------------------------------------------------------------------------------------------------
# C16 on the real nRF52 binding: the nonce inputs (packet counter, direction, IV) that
# configure_receive_train() / configure_final_transmit() put into the CCM configuration
# ------------------------------------------------------------------------------------------------
def gen_enc_session(rng, faults):
    """plain exchanges, LL encryption start as the link layer does it (setup_encryption, start_receive_encrypted,
    start_transmit_encrypted), traffic with faults, sometimes pause / restart with a new IV"""
    cfg = rng.choice([3, 4, 4, 0, 6, 6, 5])
    max_rx, max_tx = CONFIGS[cfg]
    ops = ["reset %d" % cfg]

    def traffic(n, p_fault):
        for _ in range(n):
            r = rng.random()
            if r < 0.25:
                ops.append("tx %d %s" % (rng.choice([1, 2, 3]), hexs(rand_body(rng, max_tx))))
            elif r < 0.45:
                ops.append("free")
            else:
                llid, body = central_msg(rng, max_rx, "lossy")
                f1, f2 = (rng.choice(faults), rng.randrange(2)) if rng.random() < p_fault else ("ok", 1)
                ops.append("ev %s %d %d %s" % (f1, f2, llid, hexs(body)))

    def setup():
        ops.append("enc setup %s %s %s %s" % (bytes(rng.randrange(256) for _ in range(16)).hex(),
                                              bytes(rng.randrange(256) for _ in range(8)).hex(),
                                              bytes(rng.randrange(256) for _ in range(4)).hex(),
                                              bytes(rng.randrange(256) for _ in range(12)).hex()))

    p_fault = rng.choice([0.05, 0.3, 0.5])
    traffic(rng.randrange(0, 5), p_fault)
    rounds = rng.choice([1, 1, 2, 3])
    for i in range(rounds):
        # the link layer's order (C28): setup_encryption only while nothing is encrypted, start_receive_encrypted and
        # start_transmit_encrypted once per setup
        setup()
        traffic(rng.randrange(0, 3), p_fault)
        ops.append("enc rx")
        traffic(rng.randrange(0, 4), p_fault)
        ops.append("enc rxtx")
        traffic(rng.randrange(4, 30), p_fault)
        if i + 1 < rounds or rng.random() < 0.5:
            # encryption pause: stop_receive_encrypted, stop_transmit_encrypted
            ops.append("enc tx")
            traffic(rng.randrange(0, 4), p_fault)
            ops.append("enc off")
            traffic(rng.randrange(0, 4), p_fault)
    ops += ["ev ok 1 1 -"] * 3
    ops += ["free"] * 40
    ops.append("state")
    return ops


def carry_session():
    """more than 256 counted PDUs in either direction: the carry into the second counter octet"""
    ops = ["reset 4", "enc setup %s %s 24abdcba %s" % ("00" * 16, "11" * 8, "0102030405060708bebaafde"), "enc rx", "enc rxtx"]
    for i in range(300):
        ops += ["tx 2 %02x" % (i % 256), "ev ok 1 2 %02x%02x" % (i % 256, i // 256), "free"]
        if i % 50 == 7:
            ops += ["ev lost 0 2 aa", "ev ok 0 2 aa", "ev mic 1 2 aa"]
    return ops + ["ev ok 1 1 -"] + ["free"] * 12 + ["state"]


def nonce_str(count, direction, iv):
    return "%s:%d:%s" % ((count % 2 ** 40).to_bytes(5, "little").hex(), direction, iv)


def nonce_monitor(ops, outs):
    """independent observer: what the air interface shows (central PDU, answer, acknowledgements) determines how many
    non-empty PDUs of either direction were acknowledged since encryption of that direction started; the nonce inputs
    in the CCM configuration must be exactly that count (little endian), the direction (1 = central to peripheral) and
    IVm || IVs; no nonce may be configured for two different PDUs of one direction under one IV."""
    iv = "00" * 8
    rx_enc = tx_enc = False
    rx_cnt = tx_cnt = 0
    ci = 0                  # index of the central's PDU in flight
    p_acked = set()         # central PDUs the peripheral acknowledged
    last = None             # the previous answer
    used_rx, used_tx = {}, {}
    # the reuse check presupposes the link layer's call order (C28): setup_encryption while nothing is encrypted,
    # then start_receive_encrypted and start_transmit_encrypted once each; otherwise the caller resets a counter
    # under a key / IV that was already used and only the layout is checked from there on
    may_rx = may_tx = False
    in_contract = True
    for k, (op, out) in enumerate(zip(ops, outs)):
        w = op.split()
        f = fields(out)
        if w[0] == "reset":
            continue
        if w[0] == "enc":
            if w[1] == "setup":
                in_contract = in_contract and not rx_enc and not tx_enc
                may_rx = may_tx = True
            elif w[1] == "rx":
                in_contract, may_rx = in_contract and may_rx, False
            elif w[1] == "rxtx":
                in_contract, may_tx = in_contract and may_tx and not may_rx, False
            if w[1] == "setup":
                iv = w[4] + f["ivs"]
                used_rx, used_tx = {}, {}
                if f["iv"] != iv:
                    raise Violation("C16:ccm-iv-not-ivm-ivs", "op %d: IVm %s, IVs %s (returned to the link layer), CCM configuration has IV %s"
                                    % (k, w[4], f["ivs"], f["iv"]), k)
            elif w[1] == "rx":
                rx_enc, tx_enc, rx_cnt = True, False, 0
            elif w[1] == "rxtx":
                rx_enc, tx_enc, tx_cnt = True, True, 0
            elif w[1] == "tx":
                rx_enc, tx_enc = False, True
            elif w[1] == "off":
                rx_enc, tx_enc, iv = False, False, "00" * 8
            continue
        if w[0] != "ev":
            continue
        x, r = parse_pdu(f["c"]), parse_pdu(f["r"])
        if "rn" not in f:       # before the first `enc` op of the session the harness does not report (nothing is encrypted)
            f["rn"], f["tn"] = "plain", ("-" if r is None else "plain")
        # ---- reception: configured before the PDU arrives
        want = nonce_str(rx_cnt, 1, iv) if rx_enc else "plain"
        if f["rn"] != want:
            raise Violation("C16:ccm-nonce-not-the-specified-layout",
                            "op %d: reception configured with %s; %d non-empty PDUs of the central were acknowledged since receive "
                            "encryption started, IV %s: expected %s" % (k, f["rn"], rx_cnt, iv, want), k)
        if r is None:
            if f["tn"] != "-":
                raise Violation("C16:ccm-nonce-not-the-specified-layout", "op %d: transmission configured without an answer" % k, k)
            continue
        if r["nesn"] != x["sn"] and ci not in p_acked:
            p_acked.add(ci)
            if x["len"] != 0:
                if rx_enc and in_contract:
                    if used_rx.get(f["rn"], ci) != ci:
                        raise Violation("C16:ccm-nonce-reused-for-different-pdu",
                                        "op %d: central PDU #%d accepted with nonce %s, which was used for PDU #%d" % (k, ci, f["rn"], used_rx[f["rn"]]), k)
                    used_rx[f["rn"]] = ci
                rx_cnt += 1
        # ---- transmission: a new sequence number means the previous PDU was acknowledged
        if last is not None and r["sn"] != last["sn"] and last["len"] != 0:
            tx_cnt += 1
        last = r
        want = nonce_str(tx_cnt, 0, iv) if tx_enc and r["len"] != 0 else "plain"
        if f["tn"] != want:
            raise Violation("C16:ccm-nonce-not-the-specified-layout",
                            "op %d: answer %s configured with %s; %d non-empty PDUs of the peripheral were acknowledged since transmit "
                            "encryption started, IV %s: expected %s" % (k, f["r"], f["tn"], tx_cnt, iv, want), k)
        if f["tn"] != "plain" and in_contract:
            m = (r["llid"], r["body"])
            if used_tx.get(f["tn"], m) != m:
                raise Violation("C16:ccm-nonce-reused-for-different-pdu",
                                "op %d: answer %s encrypted with nonce %s, which was used for another PDU" % (k, f["r"], f["tn"]), k)
            used_tx[f["tn"]] = m
        if w[2] == "1" and r["nesn"] != x["sn"]:
            ci += 1


def check_nonce(ctx, res):
    faults = ["ok", "lost", "crc", "mic"]
    sessions = [ops for ops in corpus_sessions(ctx) if any(o.startswith("enc") for o in ops)]
    sessions.append(carry_session())
    # data length extension under encryption: boundary payload lengths (and, thorough, all lengths) in both directions
    enc_on = ["enc setup %s %s 24abdcba %s" % ("22" * 16, "33" * 8, "0102030405060708bebaafde"), "enc rx", "enc rxtx"]
    near = sorted(set(x for b in BOUNDARY_LENGTHS for x in (b - 1, b, b + 1) if 1 <= x <= 249))
    sessions.append(length_sweep_session(6, None if ctx.thorough else near, enc=enc_on, fault_every=4))
    for _ in range(1500 if ctx.thorough else 150):
        sessions.append(gen_enc_session(ctx.rng, faults))
    impl, model, dis = run_pair(ctx, sessions, proj_nonce, "nrf52")
    for d in dis:
        ops = sessions[d["session"]]
        if len(ops) < 300 and not any("nrf52" in str(x.get("harness")) for x in res.disagreements):
            ops = shrink_disagreement(ctx, ops, proj_nonce, "nrf52")
        res.disagreements.append(dict(d, ops=ops[:200], harness="nrf52"))
    for ops, r in zip(sessions, impl):
        outs = r["out"]
        res.evaluations += len(outs)
        res.sessions += 1
        res.count("nrf52_sessions")
        res.count("nrf52_exchanges_with_encrypted_reception", sum(1 for x in outs if " rn=" in x and " rn=plain" not in x))
        res.count("nrf52_encrypted_answers", sum(1 for x in outs if " tn=" in x and " tn=plain" not in x and " tn=-" not in x))
        if r["crash"]:
            res.failures.append({"key": "C16:crash:%s" % r["crash"].split(" @")[0], "what": r["crash"], "ops": ops[:len(outs) + 1][-60:]})
            continue
        if "bad-op" in outs:
            res.failures.append({"key": "C16:generator-out-of-contract", "what": "bad-op answered (nrf52 harness)", "ops": ops[:60]})
            continue
        try:
            monitor("C16", ops, outs, True)
            nonce_monitor(ops, outs)
        except Violation as v:
            seen = sum(1 for f in res.failures if f["key"] == v.key)
            if seen >= 3:
                continue
            small = ops[:v.k + 1]
            if seen == 0 and len(small) < 200:
                def still(cand, key=v.key):
                    o = ctx.run_impl([cand], "nrf52")[0]
                    if o["crash"] or "bad-op" in o["out"]:
                        return False
                    try:
                        monitor("C16", cand, o["out"], True)
                        nonce_monitor(cand, o["out"])
                    except Violation as v2:
                        return v2.key == key
                    except Exception:
                        return False
                    return False
                small = ctx.shrink(small, still, budget=40)
            res.failures.append({"key": v.key, "what": v.what, "ops": small, "harness": "nrf52", "unshrunk": ops[:v.k + 1][-80:]})


def run_c16(ctx, replay_path=None):
    res = Result()
    faults = ["ok", "ok", "lost", "crc", "mic"]
    res.rule = ("sessions as C15/C17 (all four faults, empty and non-empty PDUs in both directions, LLID 0 PDUs with payload, "
                "receive buffer full); compared through the counter projection (allocation outcome + number of "
                "increment_receive_packet_counter / increment_transmit_packet_counter calls of the mock radio after every "
                "exchange); the observer checks after every exchange: receive calls = new non-empty central PDUs acknowledged so "
                "far, transmit calls = non-empty peripheral PDUs transmitted and acknowledged so far. counter::increment/copy_to: "
                "source text cut out of nrf52.hpp/.cpp, compiled on the host, compared with the model and with 40 bit arithmetic "
                "at all carries. Harness key nrf52: the same harness linked with the real nrf52.cpp + security_tool_box.cpp on "
                "emulated registers; sessions with setup_encryption / configure_encryption (start, pause, restart with a new IV), "
                "faults and a 300 PDU carry session; the packet counter / direction / IV octets that configure_receive_train and "
                "configure_final_transmit leave in the CCM configuration (when they start the key stream generation) are compared "
                "with the model (Ccm) and checked by an observer: counter = acknowledged non-empty PDUs of that direction since its "
                "encryption started, direction bit, IV = IVm || IVs, no nonce for two different PDUs of one direction under one IV")
    sessions = [ops for ops in corpus_sessions(ctx) if not any(o.startswith("enc") for o in ops)]
    n = 2500 if ctx.thorough else 300
    for i in range(n):
        sessions.append(gen_system_session(ctx.rng, faults))
    for i in range(n // 5):
        sessions.append(gen_raw_session(ctx.rng, faults))
    alphabet = [("ok", 1), ("ok", 0), ("mic", 1), ("lost", 0), ("crc", 1)]
    depth = 5 if ctx.thorough else 3
    sessions += enumerate_patterns(depth, alphabet, cfg=3)
    # data length extension: every payload length 1..249 (= every non-zero value of the 8 bit length field the buffer
    # admits) transmitted + acknowledged and received + acknowledged, on all three DLE configurations; once more with
    # lost answers / MIC-failing retransmissions
    near = sorted(set(x for b in BOUNDARY_LENGTHS for x in (b - 1, b, b + 1) if 1 <= x <= 249))
    if ctx.thorough:
        sessions += [length_sweep_session(cfg) for cfg in DLE_CONFIGS] + [length_sweep_session(6, fault_every=3)]
    else:
        sessions += [length_sweep_session(5), length_sweep_session(6, near, fault_every=3), length_sweep_session(7, near)]
    res.extra["exhaustive_small_scope"] = ("every pattern over %s of %d exchanges x 3 traffic shapes (encrypted layout); every payload "
                                           "length 1..249 in both directions on <520,520> (thorough: also <300,780> encrypted layout, <254,254>; quick: there "
                                           "the lengths within 1 of 27, 32, 64, 128, 192, 249, ...)"
                                           % (alphabet, depth))
    evaluate(ctx, res, "C16", sessions, proj_c16, check_counters=True)
    check_counter(ctx, res)
    check_nonce(ctx, res)
    res.samples = [" ; ".join(s[:10]) for s in sessions[len(corpus_sessions(ctx)):][:3]]
    return res


THEOREMS_C15 = ["rx_exactly_once_in_order", "central_done_implies_accepted", "full_never_acks", "tx_until_acked",
                "tx_delivered_only_after_ack", "tx_committed_in_order"]
ASSUME = ["the two pdu_ring_buffer<> are FIFO queues of PDUs (property C18, component pduring); whether an allocation "
          "succeeds is an input of the model (taken from the real ring in the correspondence runs), theorems hold for all outcomes",
          "the radio dispatches receptions as nrf52.hpp:radio_interrupt_handler does (no receive buffer or CRC error -> "
          "next_transmit, MIC error -> acknowledge, else received; lost -> silence); the harness' mock radio copies that dispatch",
          "the central follows Core spec Vol 6 Part B 4.5.9 (modelled, not verified)",
          "link layer commits PDUs with at least one payload byte (Op.WF; true of all call sites) — needed only for the "
          "transmit side bookkeeping theorems"]

PROPS = {
    "C15": dict(
        theorems=["BluetoeModel.LlData." + t for t in THEOREMS_C15],
        witnesses=[],
        harness_keys=["default"],
        run=run_c15,
        level="proof",
        technique="Lean 4 invariant proof over all fault lists, traffic and ring allocation outcomes for the closed system "
                  "(model of ll_data_pdu_buffer + radio dispatch + specification central + lossy channel) + differential "
                  "correspondence with the real ll_data_pdu_buffer<> + independent protocol observer",
        level_text="Theorems rx_exactly_once_in_order / central_done_implies_accepted / tx_delivered_only_after_ack / "
                   "tx_committed_in_order hold for every history (unbounded) of exchanges under arbitrary faults in both directions, "
                   "arbitrary allocation outcomes and arbitrary interleaved link layer calls; full_never_acks and tx_until_acked "
                   "hold in every state.",
        level_note="Trusted: Lean kernel + standard axioms; the rings are abstracted to FIFO queues (C18); the central is the "
                   "specification automaton; model = code only as far as the differential check samples it (8 size/layout variants incl. three with data length extension, payloads up to 249 bytes, "
                   "random + exhaustive small fault patterns).",
        design_ref="§5 C15",
        assumptions=ASSUME,
    ),
    "C16": dict(
        theorems=["BluetoeModel.LlData.rx_counter_eq_new_nonempty", "BluetoeModel.LlData.tx_counter_eq_acked_nonempty",
                  "BluetoeModel.LlData.counter_increment_succ", "BluetoeModel.LlData.counter_bytes_value",
                  "BluetoeModel.LlData.ccm_nonce_no_reuse", "BluetoeModel.LlData.ccm_nonce_layout",
                  "BluetoeModel.LlData.nonempty_is_full_length_octet"],
        witnesses=["BluetoeModel.LlData.tx_counter_empty_commit_witness", "BluetoeModel.LlData.six_bit_length_is_not_nonempty"],
        harness_keys=["default", "nrf52"],
        run=run_c16,
        level="proof",
        technique="as C15, the model instrumented with the two counter callbacks; counter::increment as 40 bit add, tied by a host "
                  "build of the source text cut out of nrf52.hpp/.cpp and by running the real nrf52.cpp (configure_encryption, "
                  "setup_encryption, configure_receive_train, configure_final_transmit) on emulated registers behind the real buffer",
        level_text="For every history: receive callback count = non-empty acknowledged central PDUs (= the central's own count "
                   "whenever a new PDU can arrive), transmit callback count = non-empty acknowledged PDUs and indexes the committed "
                   "PDUs (k-th committed PDU always sent with counter k). counter::increment is +1 mod 2^40. ccm_nonce_no_reuse: "
                   "the nonces configured after i and j counter callbacks differ for i != j < 2^39 (same direction and IV); "
                   "ccm_nonce_layout: counter little endian (39 bit), direction bit, IVm || IVs.",
        level_note="The transmit theorem assumes commits carry payload (witness theorem shows the assumption is needed; no call "
                   "site violates it). The nRF52 binding runs on emulated registers (harness/lldata/nrf_stub): what is observed is the "
                   "CCM configuration memory at the moment TASKS_KSGEN is written, the layout PKTCTR/DIRECTION/IV of that memory is "
                   "taken from the nRF52832 product specification; the CCM itself (key stream, MIC) is not emulated.",
        design_ref="§5 C16",
        assumptions=ASSUME,
    ),
    "C17": dict(
        theorems=["BluetoeModel.LlData.mic_fail_not_acked", "BluetoeModel.LlData.mic_fail_retransmitted_or_delivered",
                  "BluetoeModel.LlData.rx_exactly_once_in_order"],
        witnesses=["BluetoeModel.LlData.mic_fail_witness_orig"],
        harness_keys=["default"],
        run=run_c17,
        level="proof",
        technique="as C15 with MIC failures in the fault lists; the model is the code with fixes/lldata-01 applied; the defect of "
                  "the unfixed code is a witness theorem and a replayed failing input",
        level_text="mic_fail_not_acked: in every state a PDU with payload arriving with a MIC failure changes neither NESN nor the "
                   "receive queue nor the receive counter, the answer does not acknowledge it if it is new; "
                   "mic_fail_retransmitted_or_delivered: for every history every central PDU is acknowledged-and-handed-up-once or "
                   "in flight and retransmitted.",
        level_note="Requires fixes/lldata-01-mic-failure-acks-new-pdu.patch; on the unpatched tree the check reports the concrete "
                   "failing input (reset; a new PDU with MIC failure is acknowledged).",
        design_ref="§5 C17",
        assumptions=ASSUME + ["a MIC failure leaves the header bits of the PDU intact (the CRC was valid)"],
    ),
}
