"""C26 — white list (bluetoe/link_layer/include/bluetoe/white_list.hpp)"""
from vlib.core import Result

NAME = "whitelist"
LEAN_MODULE = "BluetoeModel.WhiteList"
DRIVER = "drv_whitelist"
HARNESS_DESC = "harness/whitelist.cpp (real white_list_implementation<N,true|false>)"
HARNESS = dict(src="harness/whitelist.cpp", repo_srcs=["bluetoe/utility/address.cpp"])

SIZES = [1, 2, 3, 8, 104, 108]   # 10x = radio-backed (forwarding) list of size x


def gen_session(rng, size, length):
    cap = size % 100
    # small address universe (cap + 2 addresses, both address types) so that full / duplicate /
    # absent cases are all frequent; plus occasionally two addresses differing only in the type bit
    base = rng.randrange(1, 1 << 47) * 2
    universe = [base + 2 * i for i in range(cap + 2)] + [base + 1]
    ops = ["reset %d" % size]
    for _ in range(length):
        r = rng.random()
        a = rng.choice(universe)
        if r < 0.30:
            ops.append("add %d" % a)
        elif r < 0.50:
            ops.append("remove %d" % a)
        elif r < 0.62:
            ops.append("isin %d" % a)
        elif r < 0.70:
            ops.append("free")
        elif r < 0.73:
            ops.append("clear")
        elif r < 0.78:
            ops.append("setconn %d" % rng.randrange(2))
        elif r < 0.83:
            ops.append("setscan %d" % rng.randrange(2))
        elif r < 0.90:
            ops.append("connin %d" % a)
        elif r < 0.97:
            ops.append("scanin %d" % a)
        else:
            ops.append(rng.choice(["getconn", "getscan"]))
    return ops


def monitor(ops, outs):
    """independent oracle: the property statement evaluated with a Python set"""
    s, cap, conn, scan = set(), 0, False, False
    for k, (op, out) in enumerate(zip(ops, outs)):
        w = op.split()
        exp = None
        if w[0] == "reset":
            s, cap, conn, scan, exp = set(), int(w[1]) % 100, False, False, "ok"
        elif w[0] == "add":
            a = int(w[1])
            if a in s or len(s) < cap:
                s.add(a)
                exp = "1"
            else:
                exp = "0"
        elif w[0] == "remove":
            a = int(w[1])
            exp = "1" if a in s else "0"
            s.discard(a)
        elif w[0] == "isin":
            exp = "1" if int(w[1]) in s else "0"
        elif w[0] == "free":
            exp = str(cap - len(s))
        elif w[0] == "clear":
            s, exp = set(), "ok"
        elif w[0] == "setconn":
            conn, exp = w[1] == "1", "ok"
        elif w[0] == "setscan":
            scan, exp = w[1] == "1", "ok"
        elif w[0] == "getconn":
            exp = "1" if conn else "0"
        elif w[0] == "getscan":
            exp = "1" if scan else "0"
        elif w[0] == "connin":
            exp = "1" if (not conn or int(w[1]) in s) else "0"
        elif w[0] == "scanin":
            exp = "1" if (not scan or int(w[1]) in s) else "0"
        if exp is not None and out != exp:
            return k, "op %d `%s`: implementation answered %s, a set of at most %d addresses answers %s" % (k, op, out, cap, exp)
    return None


def gen_dense(rng, size, length):
    """dense histories: only add / remove / isin / filter queries over 2-3 addresses on a small list, so that
    slot reuse after swap-with-last removal, stale slots behind the used range and repeated lookups of one
    address (anything a lookup cache or a 'last match' shortcut would get wrong) occur many times per session
    (added after seeded change C26-m3 was missed by the sparse generator)"""
    cap = size % 100
    base = rng.randrange(1, 1 << 47) * 2
    universe = [base + 2 * i for i in range(rng.choice([2, 3, cap + 1]))]
    ops = ["reset %d" % size, "setconn 1", "setscan 1"]
    for _ in range(length):
        a = rng.choice(universe)
        ops.append("%s %d" % (rng.choice(["add", "add", "remove", "remove", "isin", "isin", "connin", "scanin"]), a))
        if rng.random() < 0.1:
            ops.append("free")
    return ops


def enumerate_small(size, universe, depth):
    """all op sequences of `depth` ops over add/remove/isin/free for a tiny universe"""
    alphabet = ["free"] + ["%s %d" % (o, a) for o in ("add", "remove", "isin") for a in universe]
    seqs = [[]]
    for _ in range(depth):
        seqs = [s + [x] for s in seqs for x in alphabet]
    return [["reset %d" % size] + s for s in seqs]


def run_c26(ctx, replay_path=None):
    res = Result()
    res.rule = ("sessions = reset N (N in 1,2,3,8 software list; 104,108 radio-backed list over a mock radio) followed by "
                "random add/remove/clear/query/filter ops over a universe of N+3 addresses, plus dense add/remove/query histories over 2-3 addresses on lists of 2, 3, 4 (radio-backed) and 8 entries; each session is run on the "
                "real white_list_implementation<> and on the Lean model and compared line by line, and independently "
                "checked against a Python set oracle; a session is non-trivial if it contains a refused add (list full), "
                "a successful remove of a non-last entry or a filter query with the filter on; distinct = distinct op sequences")
    sessions = [ops for _, ops in ctx.corpus()]
    n = 4000 if ctx.thorough else 400
    for i in range(n):
        sessions.append(gen_session(ctx.rng, SIZES[i % len(SIZES)], ctx.rng.randrange(5, 60)))
    dense_sizes = [2, 3, 8, 2, 3, 104]
    for i in range(3000 if ctx.thorough else 300):
        sessions.append(gen_dense(ctx.rng, dense_sizes[i % len(dense_sizes)], ctx.rng.randrange(8, 40)))
    if ctx.thorough:
        for size in (1, 2, 102 if False else 2):
            pass
        sessions += enumerate_small(1, [2, 4], 5) + enumerate_small(2, [2, 4, 6], 4) + enumerate_small(2, [2, 4], 6)
        res.extra["exhaustive_small_scope"] = "all op sequences: N=1, 2 addresses, length 5; N=2, 3 addresses, length 4; N=2, 2 addresses, length 6"
    impl, model, dis = ctx.run_pair(sessions)
    for d in dis:
        ops = ctx.shrink_disagreement(sessions[d["session"]]) if len(res.disagreements) < 1 else sessions[d["session"]]
        res.disagreements.append(dict(d, ops=ops))
    for ops, r in zip(sessions, impl):
        res.evaluations += len(r["out"])
        res.sessions += 1
        for o in ops[1:]:
            res.count(o.split()[0])
        outs = r["out"]
        m = monitor(ops, outs)
        if r["crash"]:
            res.failures.append({"key": "C26:crash:" + r["crash"].split(" @")[0], "what": r["crash"], "ops": ops})
        elif m:
            k, what = m
            res.failures.append({"key": "C26:not-a-set:" + ops[k].split()[0], "what": what, "ops": ops[:k + 1]})
        refused = any(o.startswith("add") and x == "0" for o, x in zip(ops, outs))
        removed = any(o.startswith("remove") and x == "1" for o, x in zip(ops, outs))
        filt = any(o.startswith(("connin", "scanin")) and x == "0" for o, x in zip(ops, outs))
        res.count("sessions_with_refused_add", refused)
        res.count("sessions_with_successful_remove", removed)
        res.count("sessions_with_filter_reject", filt)
        if refused or removed or filt:
            res.distinct.add(hash(tuple(ops)))
    res.samples = [" ; ".join(s[:14]) for s in sessions[:3]]
    return res


PROPS = {
    "C26": dict(
        theorems=["BluetoeModel.WhiteList.whitelist_refines_set", "BluetoeModel.WhiteList.whitelist_bounded_nodup",
                  "BluetoeModel.WhiteList.spec_add_idempotent", "BluetoeModel.WhiteList.spec_add_fails_iff_full",
                  "BluetoeModel.WhiteList.spec_remove_exact", "BluetoeModel.WhiteList.forward_refines_radio"],
        run=run_c26,
        level="proof",
        technique="Lean 4 refinement proof (array model refines bounded-set spec for every history and capacity) + differential correspondence with the real white_list_implementation<>",
        level_text="Theorem whitelist_refines_set: for every capacity and every operation history the model of the C++ array code (swap-with-last removal, free_size_ bookkeeping) yields exactly the outputs of a set of at most N addresses; the model is tied to the code by running identical random and small-scope-exhaustive histories on both (software sizes 1,2,3,8 and the forwarding variant over a mock radio) plus an independent Python set oracle.",
        level_note="Trusted: Lean kernel + propext/Quot.sound/Classical.choice; the hand-written model equals the code only as far as the differential check samples it; the radio-backed variant is pure forwarding, its radio is a mock implementing the documented set semantics (no radio in /repo has a hardware white list).",
        design_ref="§5 C26",
        assumptions=["device_address equality = 48 address bits + random flag (address.cpp)",
                     "radio-backed list: mock radio with set semantics"],
    ),
}
