"""C01, C05, C06, C08 — ATT request handling of bluetoe::server<> (server.hpp l2cap_input /
l2cap_output, attribute access by kind, encryption inheritance, Exchange MTU)."""
import os
from vlib.core import Result

NAME = "attaccess"
LEAN_MODULE = "BluetoeModel.AttAccess"
DRIVER = "drv_attaccess"
HARNESS_DESC = "harness/attaccess.cpp (real bluetoe::server<> types of harness/attaccess/servers.hpp)"
HARNESS = dict(src="harness/attaccess.cpp",
               flags=["-O0", "-g1", "-fsanitize=address,undefined", "-fno-sanitize-recover=all",
                      "-fno-omit-frame-pointer", "-w"])

MODEL_SERVERS = ["G1", "G2", "G3", "G4", "G5", "G6", "G7", "G8", "G9", "E123", "E231", "E312", "E333", "F21", "A1", "A2"]
AUTO_SERVERS = ["A1", "A2"]           # characteristics with auto-generated UUIDs (fixup_auto_uuid)
QUEUE_SERVERS = ["Q1", "Q2"]          # write queue: real code only (framing / memory safety)
ENC_SERVERS = ["G9", "E123", "E231", "E312", "E333", "F21"]
STRICT = os.environ.get("ATTACCESS_STRICT") == "1"   # diagnostic: compare discovery byte for byte

RSP = {0x02: 0x03, 0x04: 0x05, 0x06: 0x07, 0x08: 0x09, 0x0A: 0x0B, 0x0C: 0x0D, 0x0E: 0x0F, 0x10: 0x11,
       0x12: 0x13, 0x16: 0x17, 0x18: 0x19}
HANDLED = set(RSP) | {0x01, 0x52, 0x1E}
DISCOVERY = {0x04, 0x06, 0x10}


def hx(b):
    return bytes(b).hex() if len(b) else "-"


def unhex(s):
    return b"" if s == "-" else bytes.fromhex(s)


def le16(n):
    return bytes([n & 0xff, (n >> 8) & 0xff])


# ---------------------------------------------------------------------------------------------
# tables (dumped by the harness from the real templates)
# ---------------------------------------------------------------------------------------------
class Table:
    def __init__(self, name, line):
        self.name, self.line = name, line
        f = dict(w.split("=", 1) for w in line.split())
        self.mtu = int(f["mtu"])
        self.enc = f["enc"]
        self.queue = f["queue"] == "1"
        self.ntf = [] if f["ntf"] == "-" else [int(x) for x in f["ntf"].split(",")]
        self.attrs = []
        for a in f["attrs"].split("|"):
            c = a.split(",")
            d = dict(handle=int(c[0]), uuid=int(c[1], 16), svc_enc=c[2], chr_enc=c[3], real_req=c[4] == "1", kind=c[5], p=c[6:])
            k = d["kind"]
            if k in "BFCH":
                d["r"], d["w"], d["nr"], d["nw"] = [x == "1" for x in c[-4:]]
            if k == "B":
                d["cell"], d["size"] = int(c[6]), int(c[7])
            if k == "H":
                d["rk"], d["wk"], d["cell"], d["size"] = int(c[6]), int(c[7]), int(c[8]), int(c[9])
            if k in "FC":
                d["val"] = unhex(c[6])
                d["size"] = len(d["val"])
            if k in "UX":
                d["val"] = unhex(c[6])
            if k == "D":
                d["uuid_bytes"] = unhex(c[6])
                d["wwr"], d["owwr"], d["ntf"], d["ind"] = [x == "1" for x in c[7:11]]
                d["auto"] = int(c[11])
                d["size"] = 3 + len(d["uuid_bytes"])
            if k == "N":
                d["pos"] = int(c[6])
            if k == "S":
                d["val"] = unhex(c[6])
            self.attrs.append(d)
        self.n = len(self.attrs)
        self.values = [a for a in self.attrs if a["kind"] in "BFCH"]
        self.cccds = [a for a in self.attrs if a["kind"] == "N"]

    def attr(self, h):
        return self.attrs[h - 1] if 1 <= h <= self.n else None

    # independent reading of the documentation table in encryption.hpp
    @staticmethod
    def enc_default(dflt, o):
        req, noreq = o[0] == "1", o[1] == "1"
        if req and not noreq:
            return True
        if noreq and not req:
            return False
        if req and noreq:
            return False
        return dflt

    def requires(self, a):
        if a["kind"] not in "BFCHN":
            return False
        return self.enc_default(self.enc_default(self.enc_default(False, self.enc), a["svc_enc"]), a["chr_enc"])


_TABLES = {}


def tables(ctx):
    key = ctx.harness()
    if key not in _TABLES:
        names = MODEL_SERVERS + QUEUE_SERVERS
        res = ctx.run_impl([["reset " + n, "table", "mem 0"] for n in names])
        t = {}
        cells = None
        for n, r in zip(names, res):
            if r["crash"] or len(r["out"]) != 3 or not r["out"][1].startswith("mtu="):
                raise RuntimeError("table dump failed for %s: %s %s" % (n, r["crash"], r["out"][:2]))
            t[n] = Table(n, r["out"][1])
            cells = r["out"][2].rsplit(" cccd=", 1)[0]
        _TABLES[key] = (t, cells)
    return _TABLES[key]


def defs_session(ctx):
    t, cells = tables(ctx)
    return ["defcells " + cells] + ["def %s %s" % (n, t[n].line) for n in MODEL_SERVERS]


def parse_cells(s):
    return {int(k): bytearray(unhex(v)) for k, v in (w.split("=") for w in s.split() if not w.startswith("cccd="))}


# ---------------------------------------------------------------------------------------------
# generator
# ---------------------------------------------------------------------------------------------
def pick_handle(rng, t, kinds=None):
    r = rng.random()
    if r < 0.06:
        return rng.choice([0, t.n + 1, t.n + 2, 0xffff, rng.randrange(0x10000)])
    pool = [a for a in t.attrs if kinds is None or a["kind"] in kinds] or t.attrs
    return rng.choice(pool)["handle"]


def sizes_for(rng, size, mtu):
    return rng.choice([0, 1, max(size - 1, 0), size, size, size + 1, rng.randrange(0, mtu + 3), mtu - 3, mtu - 2])


def gen_value(rng, n):
    n = max(0, min(n, 600))
    r = rng.random()
    if r < 0.1 and n:
        return bytes([0xEE]) + bytes(rng.randrange(256) for _ in range(n - 1))
    return bytes(rng.randrange(256) for _ in range(n))


def range_pair(rng, t):
    r = rng.random()
    if r < 0.35:
        return 1, 0xffff
    if r < 0.45:
        return 1, t.n
    a = rng.randrange(1, t.n + 2)
    b = rng.choice([a, rng.randrange(a, t.n + 3), 0xffff, t.n])
    if rng.random() < 0.08:
        a, b = rng.choice([(0, 5), (b + 1, a) if b >= a else (a, b), (t.n + 1, 0xffff), (0xffff, 0xffff)])
    return a & 0xffff, b & 0xffff


def uuid16_pool(t):
    return sorted({a["uuid"] for a in t.attrs if a["uuid"] != 1} | {0x2800, 0x2803, 0x2902, 0x2901, 0x2a00})


BASE = bytes.fromhex("fb349b5f800000800010000000000000")


def gen_pdu(rng, t, kind=None, weights=None):
    """one structured PDU (bytes) for table t"""
    kinds = ["read", "blob", "write", "wcmd", "cccd", "bytype", "multi", "mtu", "info", "fbt", "group", "prep", "exec",
             "conf", "err", "unknown"]
    w = weights or [14, 12, 14, 5, 7, 9, 7, 6, 5, 4, 5, 2, 2, 1, 1, 4]
    k = kind or rng.choices(kinds, w)[0]
    mtu = t.mtu
    if k == "read":
        return bytes([0x0A]) + le16(pick_handle(rng, t))
    if k == "blob":
        h = pick_handle(rng, t)
        a = t.attr(h)
        size = a.get("size", 19) if a else 5
        off = rng.choice([0, 1, max(size - 1, 0), size, size + 1, rng.randrange(0, size + 3), mtu - 1, mtu, rng.randrange(0x10000)])
        return bytes([0x0C]) + le16(h) + le16(off & 0xffff)
    if k in ("write", "wcmd"):
        h = pick_handle(rng, t, "BFCHN" if rng.random() < 0.85 else None)
        a = t.attr(h)
        size = a.get("size", 2) if a else 2
        return bytes([0x12 if k == "write" else 0x52]) + le16(h) + gen_value(rng, sizes_for(rng, size, mtu))
    if k == "cccd":
        if not t.cccds:
            return bytes([0x0A]) + le16(pick_handle(rng, t))
        h = rng.choice(t.cccds)["handle"]
        v = rng.choice([b"\x00\x00", b"\x01\x00", b"\x02\x00", b"\x03\x00", b"\x01", b"", b"\xff\xff", b"\x01\x00\x00", bytes([rng.randrange(256), rng.randrange(256)])])
        return bytes([rng.choice([0x12, 0x12, 0x52])]) + le16(h) + v
    if k == "bytype":
        a, b = range_pair(rng, t)
        r = rng.random()
        if r < 0.7:
            u = le16(rng.choice(uuid16_pool(t)))
        elif r < 0.8:
            u = BASE[:12] + le16(rng.choice(uuid16_pool(t))) + b"\x00\x00"
        elif r < 0.92:
            decl = [x for x in t.attrs if x["kind"] == "D" and len(x["uuid_bytes"]) == 16]
            u = rng.choice(decl)["uuid_bytes"] if decl else bytes(rng.randrange(256) for _ in range(16))
        else:
            u = le16(rng.randrange(0x10000))
        return bytes([0x08]) + le16(a) + le16(b) + u
    if k == "multi":
        hs = [pick_handle(rng, t, "BFCHNDUX" if rng.random() < 0.9 else None) for _ in range(rng.choice([2, 2, 3, 4, 6, 12]))]
        return bytes([0x0E]) + b"".join(le16(h) for h in hs)
    if k == "mtu":
        v = rng.choice([0, 22, 23, 24, 50, 65, 66, 100, 246, 247, 248, 512, 0xffff, rng.randrange(0x10000)])
        return bytes([0x02]) + le16(v)
    if k == "info":
        a, b = range_pair(rng, t)
        return bytes([0x04]) + le16(a) + le16(b)
    if k == "fbt":
        a, b = range_pair(rng, t)
        svc = [x for x in t.attrs if x["kind"] == "S"]
        v = rng.choice(svc)["val"] if rng.random() < 0.7 else bytes(rng.randrange(256) for _ in range(rng.choice([2, 16])))
        return bytes([0x06]) + le16(a) + le16(b) + le16(rng.choice([0x2800, 0x2800, 0x2800, 0x2801, 0x2803])) + v
    if k == "group":
        a, b = range_pair(rng, t)
        u = rng.choice([le16(0x2800)] * 5 + [le16(0x2801), le16(0x2803), BASE[:12] + le16(0x2800) + b"\0\0"])
        return bytes([0x10]) + le16(a) + le16(b) + u
    if k == "prep":
        h = pick_handle(rng, t, "BHN")
        return bytes([0x16]) + le16(h) + le16(rng.choice([0, 0, 1, 5, 300])) + gen_value(rng, rng.randrange(0, mtu))
    if k == "exec":
        return bytes([0x18, rng.choice([0, 1, 1, 2])])
    if k == "conf":
        return bytes([0x1E])
    if k == "err":
        return bytes([0x01, 0x1D, 0x03, 0x00, 0x0A])
    # unknown / not-a-request opcodes, with and without the command flag
    op = rng.choice([0x65, 0xD2, 0x1B, 0x1D, 0x03, 0x0B, 0x20, 0x40, 0x7f, 0xff, 0x14, rng.randrange(256)])
    return bytes([op]) + gen_value(rng, rng.choice([0, 0, 2, 4, rng.randrange(0, 30)]))


def mutate(rng, p, mtu):
    r = rng.random()
    if r < 0.4 and len(p) > 1:
        return p[:rng.randrange(1, len(p))]
    if r < 0.7:
        return p + gen_value(rng, rng.choice([1, 1, 2, 3, rng.randrange(1, 10)]))
    if r < 0.85 and len(p) > 1:
        i = rng.randrange(1, len(p))
        return p[:i] + bytes([rng.randrange(256)]) + p[i + 1:]
    return bytes([rng.randrange(256) for _ in range(rng.randrange(1, mtu + 6))])


def out_size(rng, t, neg):
    return rng.choice([23, neg, neg, neg, t.mtu, 251, 512, 24, neg + 1, rng.randrange(23, 300)])


def gen_session(rng, t, length, profile):
    """profile: 'c01' broad + malformed; 'c06' value semantics on an encrypted link; 'c05' security
    states with canaries; 'c08' MTU exchanges, long reads and notifications"""
    ops = ["reset " + t.name]
    neg = [23, 23, 23]
    enc = [False] * 3
    if profile == "c06":
        for c in range(3):
            ops.append("sec %d 1 %d" % (c, rng.randrange(1, 4)))
            enc[c] = True
    if profile == "c05":
        # canaries into the values bound to encryption-requiring characteristics
        for a in t.values:
            if a["kind"] in "BH" and t.requires(a) and a.get("cell") != 3:
                ops.append("setcell %d %s" % (a["cell"], hx(bytes(rng.randrange(1, 256) for _ in range(a["size"])))))
    if t.cccds and profile in ("c08", "c05") and rng.random() < 0.8:
        for c in range(2):
            if profile == "c05" and rng.random() < 0.7:
                ops.append("sec %d 1 1" % c)          # subscribe while encrypted ...
            for a in t.cccds:
                ops.append("pdu %d 23 %s" % (c, hx(bytes([0x12]) + le16(a["handle"]) + b"\x03\x00")))
            if profile == "c05":
                ops.append("sec %d 0 %d" % (c, rng.randrange(4)))   # ... then lose encryption
    for _ in range(length):
        c = rng.choice([0, 0, 0, 1, 2])
        r = rng.random()
        if profile in ("c05", "c01") and r < (0.12 if profile == "c05" else 0.04):
            e, p = rng.randrange(2), rng.randrange(4)
            ops.append("sec %d %d %d" % (c, e, p))
            enc[c] = bool(e)
            continue
        if r < 0.22 and t.cccds and profile != "c06" or (profile == "c08" and r < 0.35 and t.cccds):
            ops.append("ntf %d %d %s %d" % (c, rng.randrange(len(t.cccds)), rng.choice("ni"),
                                            rng.choice([0, 2, 3, 4, 23, neg[c], t.mtu, 251, 300, rng.randrange(0, 300)])))
            continue
        if r < 0.27:
            ops.append("mem %d" % c)
            continue
        if r < 0.30:
            ops.append("mtu %d" % c)
            continue
        if r < 0.33 and profile != "c05":
            cand = [a for a in t.values if a["kind"] in "BH" and a.get("cell") != 3]
            if cand:
                a = rng.choice(cand)
                ops.append("setcell %d %s" % (a["cell"], hx(gen_value(rng, a["size"]))))
                continue
        w = None
        if profile == "c08":
            w = [14, 14, 4, 1, 6, 8, 8, 30, 3, 2, 3, 1, 1, 1, 1, 2]
        elif profile == "c06":
            w = [18, 16, 20, 8, 6, 10, 8, 3, 2, 1, 1, 1, 1, 0, 0, 1]
        elif profile == "c05":
            w = [18, 12, 16, 8, 12, 12, 10, 2, 1, 1, 1, 2, 1, 0, 0, 1]
        p = gen_pdu(rng, t, weights=w)
        if rng.random() < (0.25 if profile == "c01" else 0.06):
            p = mutate(rng, p, t.mtu)
        if len(p) == 0:
            p = b"\x0a"
        ops.append("pdu %d %d %s" % (c, out_size(rng, t, neg[c]), hx(p)))
        if p[0] == 0x02 and len(p) == 3 and p[1] + 256 * p[2] >= 23:
            neg[c] = min(t.mtu, p[1] + 256 * p[2])
    ops.append("mem 0")
    ops.append("mtu 0")
    return ops


# ---------------------------------------------------------------------------------------------
# projections
# ---------------------------------------------------------------------------------------------
def framing_class(op, resp):
    """what C01 says about a response: length and opcode pairing, not the payload"""
    if resp.startswith(("MODEL-", "OVERSIZE")):
        return resp
    b = unhex(resp)
    if not b:
        return "len=0"
    if b[0] == 0x01 and len(b) == 5:
        return "err op=%02x" % b[1]
    return "rsp=%02x" % b[0]


def req_op(op):
    w = op.split()
    return unhex(w[3])[0] if w[0] == "pdu" else None


def proj_common(op, line):
    w = op.split()
    if w[0] == "table" and line.startswith("mtu="):
        return "".join("1" if a.split(",")[4] == "1" else "0" for a in line.split("attrs=")[1].split("|"))
    if w[0] == "pdu" and not STRICT and req_op(op) in DISCOVERY:
        return framing_class(op, line)      # discovery is attdisc's subject: framing level only
    return line


def proj_c01(op, line):
    w = op.split()
    if w[0] == "pdu":
        b = None if line.startswith(("MODEL-", "OVERSIZE")) else unhex(line)
        if b is not None and req_op(op) not in DISCOVERY:
            return framing_class(op, line) + " len=%d" % len(b)
        return framing_class(op, line)
    if w[0] == "ntf":
        return "len=%d" % len(unhex(line)) if not line.startswith(("MODEL-", "OVERSIZE", "bad")) else line
    if w[0] == "mem":
        return ""
    return proj_common(op, line)


def proj_c08(op, line):
    w = op.split()
    if w[0] == "pdu":
        if req_op(op) == 0x02:
            return line
        return proj_c01(op, line)
    return proj_c01(op, line)


# ---------------------------------------------------------------------------------------------
# monitors (independent oracles evaluating the property statements on the implementation output)
# ---------------------------------------------------------------------------------------------
class MtuTrack:
    """C08's sentence: negotiated = min(server max, last valid client MTU (>= 23, length 3)), else 23"""

    def __init__(self, server_mtu):
        self.server, self.client = server_mtu, [23, 23, 23]

    def neg(self, c):
        return min(self.server, self.client[c])

    def request(self, c, p):
        if p[0] == 0x02 and len(p) == 3 and p[1] + 256 * p[2] >= 23:
            self.client[c] = p[1] + 256 * p[2]
            return True
        return False


def fail(res, key, what, ops, k):
    res.failures.append({"key": key, "what": what, "ops": ops[:k + 1]})


def monitor_framing(res, pid, t, ops, outs, crash):
    """C01 (and the response half of C08)"""
    mt = MtuTrack(t.mtu)
    for k, (op, out) in enumerate(zip(ops, outs)):
        w = op.split()
        if w[0] == "reset":
            mt = MtuTrack(t.mtu)
        if w[0] == "ntf" and pid == "C08":
            c, n = int(w[1]), int(w[4])
            if out.startswith("OVERSIZE") or (out != "bad-op" and len(unhex(out)) > min(n, mt.neg(c))):
                fail(res, "C08:notification-exceeds-negotiated-mtu",
                     "op %d `%s`: %d byte notification/indication, negotiated MTU %d, buffer %d" % (k, op, len(unhex(out)) if not out.startswith("O") else -1, mt.neg(c), n), ops, k)
        if w[0] == "mtu" and pid == "C08":
            c = int(w[1])
            exp = "%d %d" % (mt.client[c], mt.neg(c))
            if out != exp:
                fail(res, "C08:mtu-state", "op %d `%s`: implementation holds `%s`, the exchange history gives `%s`" % (k, op, out, exp), ops, k)
        if w[0] != "pdu":
            continue
        c, n, p = int(w[1]), int(w[2]), unhex(w[3])
        cap = min(n, mt.neg(c))
        opc = p[0]
        if out.startswith("OVERSIZE"):
            fail(res, pid + ":response-exceeds-buffer", "op %d `%s`: out_size %s" % (k, op, out), ops, k)
            continue
        b = unhex(out)
        if len(b) > cap:
            fail(res, pid + ":response-exceeds-negotiated-mtu", "op %d `%s`: %d byte response, negotiated MTU %d, buffer %d" % (k, op, len(b), mt.neg(c), n), ops, k)
        if pid == "C01":
            is_err = len(b) == 5 and b[0] == 0x01 and b[1] == opc
            if opc in RSP:
                if not (len(b) >= 1 and (b[0] == RSP[opc] or is_err)):
                    fail(res, "C01:framing:request-%02x-answer" % opc, "op %d `%s`: request answered by `%s`" % (k, op, out), ops, k)
            elif opc == 0x1E and len(p) != 1:
                if b:
                    fail(res, "C01:framing:malformed-confirmation-answered", "op %d `%s`: confirmation with %d bytes answered by `%s`" % (k, op, len(p), out), ops, k)
            elif opc in (0x01, 0x52, 0x1E):
                if b:
                    fail(res, "C01:framing:%02x-answered" % opc, "op %d `%s`: answered by `%s`" % (k, op, out), ops, k)
            elif opc & 0x40:
                if b:
                    fail(res, "C01:framing:unknown-command-answered", "op %d `%s`: command %02x answered by `%s`" % (k, op, opc, out), ops, k)
            elif opc == 0x1B:
                if b:
                    fail(res, "C01:framing:client-notification-answered", "op %d `%s`: answered by `%s`" % (k, op, out), ops, k)
            elif b and not is_err:
                fail(res, "C01:framing:unknown-opcode-answer", "op %d `%s`: answered by `%s`" % (k, op, out), ops, k)
        if pid == "C08" and opc == 0x02:
            valid = len(p) == 3 and p[1] + 256 * p[2] >= 23
            if valid and b != bytes([0x03]) + le16(t.mtu):
                fail(res, "C08:exchange-response", "op %d `%s`: valid exchange answered by `%s`" % (k, op, out), ops, k)
            if not valid and not (len(b) == 5 and b[0] == 1 and b[1] == 2):
                fail(res, "C08:invalid-exchange-not-rejected", "op %d `%s`: answered by `%s`" % (k, op, out), ops, k)
        mt.request(c, p)
    if crash:
        key = pid + ":crash:" + crash.split(" @")[0]
        k = min(len(outs), len(ops) - 1)
        w = ops[k].split()
        if w[0] == "pdu":
            p = unhex(w[3])
            a = t.attr(p[1] + 256 * p[2]) if len(p) >= 5 else None
            if p[0] == 0x16 and t.queue and a and a["kind"] == "N":
                key = pid + ":crash:prepare-write-to-cccd"
        fail(res, key, crash, ops, len(outs))


class Store:
    """C06's abstract value store: cell -> bytes, with the documented behaviour of the harness's handlers"""

    def __init__(self, cells):
        self.cells = {k: bytearray(v) for k, v in cells.items()}

    def expected_write(self, a, off, v):
        """returns (error code or 0, mutate?)"""
        k = a["kind"]
        size = a.get("size", 0)
        if k == "B":
            if not a["w"]:
                return 0x03
            if off > size:
                return 0x07
            if off + len(v) > size:
                return 0x0D
            self.cells[a["cell"]][off:off + len(v)] = v
            return 0
        if k == "H":
            if a["wk"] == 0:
                return 0x03
            if a["wk"] == 1:
                if off != 0:
                    return 0x0B
                if len(v) > size:
                    return 0x0D
                if v[:1] == b"\xee":
                    return 0x80
            else:
                if off > size:
                    return 0x07
                if off + len(v) > size:
                    return 0x0D
            self.cells[a["cell"]][off:off + len(v)] = v
            return 0
        if k == "F":
            return 0x03 if a["r"] else None     # code differs (read_not_permitted) for unreadable fixed values
        return 0x03

    def expected_read(self, a, off, room):
        """returns (error code | 0, bytes) or None when this oracle does not decide it"""
        k = a["kind"]
        if k in "BFC":
            if a["nr"] or (k in "BF" and not a["r"]):
                return 0x02, b""
            data = bytes(self.cells[a["cell"]]) if k == "B" else a["val"]
        elif k == "H":
            if a["nr"] or a["rk"] == 0:
                return 0x02, b""
            if a["rk"] == 1 and off != 0:
                return 0x0B, b""
            data = bytes(self.cells[a["cell"]])
        else:
            return None
        if off > len(data):
            return 0x07, b""
        return 0, data[off:off + room]


def monitor_values(res, t, ops, outs, init_cells):
    """C06: every session runs on encrypted links, so security never interferes"""
    st = Store(init_cells)
    mt = MtuTrack(t.mtu)
    for k, (op, out) in enumerate(zip(ops, outs)):
        w = op.split()
        if w[0] == "reset":
            st, mt = Store(init_cells), MtuTrack(t.mtu)
        elif w[0] == "setcell" and out == "ok":
            st.cells[int(w[1])] = bytearray(unhex(w[2]))
        elif w[0] == "mem":
            got = parse_cells(out)
            for c, v in st.cells.items():
                if got.get(c) != v:
                    fail(res, "C06:store-diverged", "op %d `%s`: cell %d is %s, the writes so far give %s" % (k, op, c, hx(got.get(c, b"")), hx(v)), ops, k)
                    st.cells[c] = bytearray(got.get(c, v))
        elif w[0] == "pdu":
            c, n, p = int(w[1]), int(w[2]), unhex(w[3])
            cap = min(n, mt.neg(c))
            b = unhex(out) if not out.startswith("OVERSIZE") else b""
            opc = p[0]
            if opc in (0x0A, 0x0C) and len(p) == (3 if opc == 0x0A else 5):
                a = t.attr(p[1] + 256 * p[2])
                off = 0 if opc == 0x0A else p[3] + 256 * p[4]
                if a and a["kind"] in "BFCH":
                    code, data = st.expected_read(a, off, cap - 1)
                    exp = bytes([opc + 1]) + data if code == 0 else bytes([1, opc, p[1], p[2], code])
                    if b != exp:
                        kindname = {"B": "bound", "F": "fixed", "C": "cstring", "H": "handler"}[a["kind"]]
                        if a["nr"] and kindname in ("handler", "cstring"):
                            # every deviation from "Read Not Permitted" on these is the same defect
                            key = "C06:no_read_access-not-enforced:" + kindname
                        elif code == 0x02 and b[:1] == bytes([opc + 1]):
                            key = "C06:read-permission:" + kindname
                        else:
                            key = "C06:read-semantics:" + kindname
                        fail(res, key, "op %d `%s`: answered %s, value semantics give %s" % (k, op, out, hx(exp)), ops, k)
                    # declared properties (declaration precedes the value) vs what was permitted
                    d = t.attr(a["handle"] - 1)
                    if d and d["kind"] == "D" and opc == 0x0A:
                        # properties byte as the implementation declares it: read it from the model-independent dump
                        pass
            if opc in (0x12, 0x52) and len(p) >= 3:
                a = t.attr(p[1] + 256 * p[2])
                if a and a["kind"] in "BFCH":
                    code = st.expected_write(a, 0, p[3:])
                    if opc == 0x12 and code is not None:
                        exp = bytes([0x13]) if code == 0 else bytes([1, opc, p[1], p[2], code])
                        if b != exp:
                            key = "C06:write-permission" if code in (0x03,) and b[:1] == b"\x13" else "C06:write-semantics"
                            fail(res, key + ":" + a["kind"], "op %d `%s`: answered %s, value semantics give %s" % (k, op, out, hx(exp)), ops, k)
            mt.request(c, p)


def monitor_properties(res, t, impl_read):
    """declared characteristic properties (as READ from the implementation) vs permissions enforced"""
    for a in t.values:
        d = t.attr(a["handle"] - 1)
        props = impl_read.get(d["handle"])
        if props is None:
            continue
        perm_r, perm_w = impl_read.get(("r", a["handle"])), impl_read.get(("w", a["handle"]))
        kindname = {"B": "bound", "F": "fixed", "C": "cstring", "H": "handler"}[a["kind"]]
        if perm_r is not None and bool(props & 0x02) != perm_r:
            key = "C06:no_read_access-not-enforced:" + kindname if a["nr"] else "C06:properties-read-mismatch:" + kindname
            res.failures.append({"key": key, "what": "%s handle %d: declared properties %02x, Read Request %s" % (t.name, a["handle"], props, "succeeds" if perm_r else "refused"),
                                 "ops": ["reset " + t.name, "sec 0 1 1", "pdu 0 23 " + hx(bytes([0x0A]) + le16(d["handle"])), "pdu 0 23 " + hx(bytes([0x0A]) + le16(a["handle"]))]})
        if perm_w is not None and bool(props & 0x0C) != perm_w:
            res.failures.append({"key": "C06:properties-write-mismatch:" + kindname, "what": "%s handle %d: declared properties %02x, Write %s" % (t.name, a["handle"], props, "accepted" if perm_w else "refused"),
                                 "ops": ["reset " + t.name, "sec 0 1 1", "pdu 0 23 " + hx(bytes([0x0A]) + le16(d["handle"])), "pdu 0 23 " + hx(bytes([0x12]) + le16(a["handle"]))]})


def monitor_security(res, t, ops, outs, init_cells):
    """C05: canary values never leave on an unencrypted link, protected values / CCCDs are not
    modified there, rejection codes"""
    enc, pair = [False] * 3, [0] * 3
    cells = {k: bytes(v) for k, v in init_cells.items()}
    cccd = None
    prot_cells = {a["cell"]: a for a in t.values if a["kind"] in "BH" and t.requires(a)}
    prot_cccd = [a["pos"] for a in t.cccds if t.requires(a)]
    dirty = False   # an unencrypted connection sent a write to a protected attribute since the last mem
    snapshot = None
    for k, (op, out) in enumerate(zip(ops, outs)):
        w = op.split()
        if w[0] == "reset":
            enc, pair = [False] * 3, [0] * 3
            cells = {kk: bytes(v) for kk, v in init_cells.items()}
        elif w[0] == "sec":
            enc[int(w[1])], pair[int(w[1])] = w[2] == "1", int(w[3])
        elif w[0] == "setcell" and out == "ok":
            cells[int(w[1])] = unhex(w[2])
        elif w[0] in ("pdu", "ntf"):
            c = int(w[1])
            b = unhex(out) if not out.startswith(("OVERSIZE", "bad")) else b""
            if not enc[c]:
                for cell in prot_cells:
                    v = cells[cell]
                    if v is None:
                        continue
                    for i in range(0, max(len(v) - 3, 1)):
                        if len(v) >= 4 and v[i:i + 4] in b:
                            fail(res, "C05:protected-value-exposed:" + ("notification" if w[0] == "ntf" else "%02x" % unhex(w[3])[0]),
                                 "op %d `%s` on an unencrypted link returned bytes of protected cell %d: %s" % (k, op, cell, out), ops, k)
                            break
            if w[0] == "pdu":
                p = unhex(w[3])
                # direct requests to a protected attribute on an unencrypted link: rejection code
                if not enc[c] and len(p) >= 3 and p[0] in (0x0A, 0x0C, 0x12) and (p[0] != 0x0A or len(p) == 3) and (p[0] != 0x0C or len(p) == 5):
                    a = t.attr(p[1] + 256 * p[2])
                    if a and t.requires(a):
                        code = 0x05 if pair[c] == 0 else 0x0F
                        exp = bytes([1, p[0], p[1], p[2], code])
                        if b != exp:
                            fail(res, "C05:rejection:%02x" % p[0], "op %d `%s` (encrypted=0 pairing=%d): answered %s, expected %s" % (k, op, pair[c], out, hx(exp)), ops, k)
                # state tracking for "never modified": remember writes that were legitimate
                if len(p) >= 3 and p[0] in (0x12, 0x52):
                    a = t.attr(p[1] + 256 * p[2])
                    if a and a["kind"] in "BH" and (enc[c] or not t.requires(a)) and out in ("13", "-"):
                        cells.pop("_", None)
                        snapshot = None      # value may legitimately have changed: resync at next mem
                        cells[a["cell"]] = None
        elif w[0] == "mem":
            got = parse_cells(out)
            for cell in list(cells):
                if cells[cell] is None:
                    cells[cell] = bytes(got[cell])
                elif cell in prot_cells and bytes(got[cell]) != cells[cell]:
                    fail(res, "C05:protected-value-modified", "op %d `%s`: protected cell %d changed from %s to %s without a write on an encrypted link" % (k, op, cell, hx(cells[cell]), hx(got[cell])), ops, k)
                    cells[cell] = bytes(got[cell])
                else:
                    cells[cell] = bytes(got[cell])


def monitor_cccd(res, t, ops, outs):
    """C05: a protected CCCD is not modified / read on an unencrypted link"""
    enc = [False] * 3
    flags = [[0] * len(t.cccds) for _ in range(3)]
    prot = {a["handle"]: a["pos"] for a in t.cccds if t.requires(a)}
    for k, (op, out) in enumerate(zip(ops, outs)):
        w = op.split()
        if w[0] == "reset":
            enc, flags = [False] * 3, [[0] * len(t.cccds) for _ in range(3)]
        elif w[0] == "sec":
            enc[int(w[1])] = w[2] == "1"
        elif w[0] == "pdu":
            c, p = int(w[1]), unhex(w[3])
            if len(p) >= 3 and p[0] in (0x12, 0x52):
                h = p[1] + 256 * p[2]
                a = t.attr(h)
                if a and a["kind"] == "N" and (enc[c] or h not in prot) and len(p) in (4, 5) and out in ("13", "-"):
                    flags[c][a["pos"]] = p[3] & 3
        elif w[0] == "mem":
            c = int(w[1])
            got = out.rsplit("cccd=", 1)[1]
            for h, pos in prot.items():
                if got != "-" and int(got[pos]) != flags[c][pos]:
                    fail(res, "C05:protected-cccd-modified", "op %d `%s`: CCCD %d of connection %d is %s, writes on encrypted links give %d" % (k, op, pos, c, got[pos], flags[c][pos]), ops, k)
                    flags[c][pos] = int(got[pos])
        elif w[0] == "ntf":
            c, pos = int(w[1]), int(w[2])
            a = t.cccds[pos] if pos < len(t.cccds) else None
            if a and t.requires(a) and not enc[c] and out not in ("-", "bad-op"):
                fail(res, "C05:notification-on-unencrypted-link", "op %d `%s`: %s" % (k, op, out), ops, k)


# ---------------------------------------------------------------------------------------------
# runs
# ---------------------------------------------------------------------------------------------
def run_generic(ctx, pid, profile, proj, servers, n_quick, n_thorough, length, extra=None):
    res = Result()
    t, cells_s = tables(ctx)
    init_cells = parse_cells(cells_s)
    rng = ctx.rng
    sessions = [defs_session(ctx), ["reset G1", "enctable"]] + [["reset " + n, "table"] for n in MODEL_SERVERS]
    owner = [None, None] + [None] * len(MODEL_SERVERS)
    for _, ops in ctx.corpus():
        sessions.append(ops)
        owner.append(ops[0].split()[1])
    n = n_thorough if ctx.thorough else n_quick
    for i in range(n):
        name = servers[i % len(servers)]
        sessions.append(gen_session(rng, t[name], rng.randrange(length // 3, length), profile))
        owner.append(name)
    if extra:
        for name, ops in extra(ctx, t):
            sessions.append(ops)
            owner.append(name)
    impl, model, dis = ctx.run_pair(sessions, proj)
    for d in dis:
        ops = sessions[d["session"]]
        if len(res.disagreements) < 2 and d["session"] >= 2:
            pre = sessions[0]
            small = ctx.shrink(ops, lambda cand: bool(ctx.run_pair([pre, cand], proj)[2]))
            res.disagreements.append(dict(d, ops=small))
        else:
            res.disagreements.append(dict(d, ops=ops))
    for ops, r, name in zip(sessions, impl, owner):
        res.evaluations += len(r["out"])
        res.sessions += 1
        if name is None:
            continue
        for o, x in zip(ops, r["out"]):
            w = o.split()
            if w[0] == "pdu":
                b = unhex(w[3])
                res.count("req_%02x" % b[0])
                y = unhex(x) if not x.startswith("OVERSIZE") else b""
                res.count("rsp_empty" if not y else ("err_%02x" % y[4] if len(y) == 5 and y[0] == 1 else "rsp_%02x" % y[0]))
                res.distinct.add((name, w[3], x))
            else:
                res.count("op_" + w[0])
    res.samples = [" ; ".join(s[:10]) for s in sessions[-3:]]
    return res, t, init_cells, sessions, impl, owner


def queue_sessions(ctx, t, n):
    rng = ctx.rng
    # targeted: Prepare Write to a CCCD (known finding C01:crash:prepare-write-to-cccd)
    out = [("Q1", ["reset Q1", "pdu 0 23 160300000001", "pdu 1 23 1604000000"])]
    for i in range(n):
        name = QUEUE_SERVERS[i % 2]
        tt = t[name]
        ops = ["reset " + name]
        for c in range(2):
            ops.append("sec %d %d %d" % (c, rng.randrange(2), rng.randrange(4)))
        for _ in range(rng.randrange(10, 60)):
            c = rng.randrange(3)
            p = gen_pdu(rng, tt, weights=[4, 4, 6, 2, 3, 3, 3, 4, 1, 1, 1, 30, 14, 1, 1, 2])
            if rng.random() < 0.2:
                p = mutate(rng, p, tt.mtu)
            ops.append("pdu %d %d %s" % (c, rng.choice([23, 23, 65, 251, rng.randrange(23, 100)]), hx(p or b"\x18")))
        out.append((name, ops))
    return out


def small_scope(t):
    """thorough: every PDU of length <= 3 for every opcode byte (third byte sampled) on G1"""
    out = []
    for op in range(256):
        ops = ["reset G1", "pdu 0 23 %02x" % op]
        for b1 in (0, 1, 3, 0x10, 0xff):
            ops.append("pdu 0 23 %02x%02x" % (op, b1))
            for b2 in (0, 1, 0xff):
                ops.append("pdu 0 23 %02x%02x%02x" % (op, b1, b2))
        out.append(("G1", ops))
    return out


def read_len(a):
    """number of bytes a read of attribute `a` at offset 0 yields into a large buffer (None: refused / user handler)"""
    k = a["kind"]
    if k in "SUX":
        return len(a["val"])
    if k == "D":
        return a["size"]
    if k == "B":
        return a["size"] if a["r"] else None
    if k == "F":
        return a["size"] if a["r"] else None
    if k == "C":
        return a["size"]
    if k == "N":
        return 2
    return None


def fill_handles(items, target, maxn):
    """a list of at most maxn handles (repeats allowed) whose values have exactly `target` bytes in total"""
    best = {0: []}
    for total in range(1, target + 1):
        for h, n in items:
            prev = best.get(total - n)
            if prev is not None and len(prev) < maxn and (total not in best or len(prev) + 1 < len(best[total])):
                best[total] = prev + [h]
    return best.get(target)


def decl_fill_sessions(t, names, thorough):
    """every characteristic declaration is read into every remaining-buffer size 0..6 (and, with it, at every
    alignment of the Read By Type collector) with the output in an exactly-sized heap block:
    per negotiated MTU m in 23..min(40, server MTU): Read Multiple whose earlier handles leave exactly r = 0..6 bytes
    in front of the declaration (and the declaration first, then fillers); Read By Type <<Characteristic>> from every
    declaration handle; Read Blob of every declaration at offsets 0..20 (m = 23 and the largest m; all m in thorough)"""
    out = []
    for name in names:
        tt = t[name]
        decls = [a for a in tt.attrs if a["kind"] == "D"]
        items = sorted(((a["handle"], read_len(a)) for a in tt.attrs if read_len(a) and not tt.requires(a)),
                       key=lambda x: -x[1])
        top = min(40, tt.mtu)
        for m in range(23, top + 1):
            ops = ["reset " + name]
            if m > 23:
                ops.append("pdu 0 23 " + hx(bytes([0x02]) + le16(m)))
            for d in decls:
                for r in range(0, 7):
                    hs = fill_handles(items, m - 1 - r, (m - 1) // 2 - 1)
                    if hs is None:
                        continue
                    ops.append("pdu 0 %d %s" % (m, hx(bytes([0x0E]) + b"".join(le16(h) for h in hs + [d["handle"]]))))
                ops.append("pdu 0 %d %s" % (m, hx(bytes([0x0E]) + le16(d["handle"]) + le16(items[-1][0]) + le16(d["handle"]))))
                ops.append("pdu 0 %d %s" % (m, hx(bytes([0x08]) + le16(d["handle"]) + le16(0xffff) + le16(0x2803))))
                if m in (23, top) or thorough:
                    for off in range(0, 21):
                        ops.append("pdu 0 %d %s" % (m, hx(bytes([0x0C]) + le16(d["handle"]) + le16(off))))
            ops.append("pdu 0 %d %s" % (m, hx(bytes([0x08]) + le16(1) + le16(0xffff) + le16(0x2803))))
            out.append((name, ops))
    return out


RULE = ("sessions = reset <server type> + link security / setcell / pdu (l2cap_input with exactly-sized heap buffers) / ntf "
        "(l2cap_output) / mem / mtu ops; PDUs are structured from the server's own attribute table (dumped from the real templates) "
        "with boundary offsets/lengths, %s; each session runs on the real server type and on the Lean model "
        "(the table is handed to the model as data) and the outputs are compared through the property's projection; an independent "
        "Python monitor evaluates the property statement on the implementation's outputs; distinct = distinct (server, PDU, response)")


def run_c01(ctx, replay_path=None):
    def extra(ctx, t):
        e = decl_fill_sessions(t, MODEL_SERVERS if ctx.thorough else AUTO_SERVERS + ["G1", "G6"], ctx.thorough)
        if ctx.thorough:
            e += small_scope(t)
        return e
    res, t, init, sessions, impl, owner = run_generic(ctx, "C01", "c01", proj_c01, MODEL_SERVERS, 170, 3000, 60, extra)
    res.rule = RULE % ("25 % mutated (truncated / extended / corrupted / random) PDUs, unknown and command opcodes; plus, systematically, "
                       "every characteristic declaration (incl. auto-generated UUIDs, servers A1/A2) read into every remaining-buffer size "
                       "0..6 at every negotiated MTU 23..40 (Read Multiple fill patterns, Read By Type <<Characteristic>> from every "
                       "declaration, Read Blob offsets 0..20), output buffer = exactly the negotiated MTU")
    res.extra["declaration_fill"] = "declaration x remaining buffer 0..6 x MTU 23..40 enumerated on " + ", ".join(MODEL_SERVERS if ctx.thorough else AUTO_SERVERS + ["G1", "G6"])
    for ops, r, name in zip(sessions, impl, owner):
        if name:
            monitor_framing(res, "C01", t[name], ops, r["out"], r["crash"])
    # write queue servers: real code only
    q = queue_sessions(ctx, t, 400 if ctx.thorough else 40)
    qi = ctx.run_impl([ops for _, ops in q])
    for (name, ops), r in zip(q, qi):
        res.evaluations += len(r["out"])
        res.count("queue_server_ops", len(r["out"]))
        monitor_framing(res, "C01", t[name], ops, r["out"], r["crash"])
    if ctx.thorough:
        res.extra["small_scope"] = "all PDUs of length 1, and lengths 2..3 with sampled bytes, for all 256 opcodes on G1"
    return res


def run_c08(ctx, replay_path=None):
    res, t, init, sessions, impl, owner = run_generic(ctx, "C08", "c08", proj_c08, ["G1", "G2", "G3", "G4", "G6", "G9", "G7"], 120, 2500, 50)
    res.rule = RULE % "30 % Exchange MTU requests (0, 22, 23, 24, 65, 247, 248, 65535, random; wrong lengths), notifications/indications with output buffers 0..300"
    for ops, r, name in zip(sessions, impl, owner):
        if name:
            monitor_framing(res, "C08", t[name], ops, r["out"], r["crash"])
    return res


def run_c06(ctx, replay_path=None):
    res, t, init, sessions, impl, owner = run_generic(ctx, "C06", "c06", proj_common, ["G1", "G2", "G3", "G4", "G5", "G6", "G7", "G8", "A1", "A2"], 130, 2500, 70)
    res.rule = RULE % "all links encrypted (security never interferes); reads/blob reads/writes at offsets 0, 1, size-1, size, size+1, MTU-1"
    for ops, r, name in zip(sessions, impl, owner):
        if name:
            monitor_values(res, t[name], ops, r["out"], init)
            if r["crash"]:
                fail(res, "C06:crash:" + r["crash"].split(" @")[0], r["crash"], ops, len(r["out"]))
    # declared properties vs enforced permissions, exhaustively over every value attribute of every server
    probes = []
    for name in MODEL_SERVERS + QUEUE_SERVERS:
        tt = t[name]
        ops = ["reset " + name, "sec 0 1 1"]
        for a in tt.values:
            ops += ["pdu 0 23 " + hx(bytes([0x0A]) + le16(a["handle"] - 1)), "pdu 0 23 " + hx(bytes([0x0A]) + le16(a["handle"])),
                    "pdu 0 23 " + hx(bytes([0x12]) + le16(a["handle"]))]
        probes.append((name, ops))
    pr = ctx.run_impl([o for _, o in probes])
    for (name, ops), r in zip(probes, pr):
        tt = t[name]
        seen = {}
        for i, a in enumerate(tt.values):
            d, rd, wr = [unhex(x) for x in r["out"][2 + 3 * i: 5 + 3 * i]]
            if d[:1] == b"\x0b":
                seen[a["handle"] - 1] = d[1]
            seen[("r", a["handle"])] = rd[:1] == b"\x0b"
            # an empty write is "permitted" unless it is refused with write/read not permitted
            seen[("w", a["handle"])] = not (len(wr) == 5 and wr[4] in (0x03, 0x02))
        monitor_properties(res, tt, seen)
        res.evaluations += len(r["out"])
    res.extra["properties_vs_permissions"] = "every value attribute of all %d server types probed (exhaustive)" % len(probes)
    return res


def run_c05(ctx, replay_path=None):
    res, t, init, sessions, impl, owner = run_generic(ctx, "C05", "c05", proj_common, ENC_SERVERS, 130, 2500, 60)
    res.rule = RULE % ("servers with encryption options at all three levels, link states {unencrypted/no key, unencrypted/key, encrypted} "
                       "changing during the session, canary values in every protected cell; the inheritance function is compared "
                       "exhaustively (all 64 option placements, real characteristic_requires_encryption<> vs model vs the documentation table)")
    for ops, r, name in zip(sessions, impl, owner):
        if name:
            monitor_security(res, t[name], ops, r["out"], init)
            monitor_cccd(res, t[name], ops, r["out"])
            if r["crash"]:
                fail(res, "C05:crash:" + r["crash"].split(" @")[0], r["crash"], ops, len(r["out"]))
    # exhaustive: inheritance table of the real template vs the documentation table (Python reading)
    real = impl[1]["out"][1] if len(impl[1]["out"]) > 1 else ""
    mine = ""
    opt = {0: "000", 1: "100", 2: "010", 3: "001"}
    for i in range(64):
        v = Table.enc_default(Table.enc_default(Table.enc_default(False, opt[i // 16]), opt[(i // 4) % 4]), opt[i % 4])
        mine += "1" if v else "0"
    if real != mine:
        bad = [i for i in range(64) if real[i:i + 1] != mine[i]]
        res.failures.append({"key": "C05:inheritance-table", "what": "characteristic_requires_encryption<> differs from the documented table at placements %s" % bad[:8],
                             "ops": ["reset G1", "enctable"]})
    res.exhaustive = True
    res.extra["exhaustive"] = "encryption option inheritance: all 4^3 placements (real template = model = documentation table)"
    return res


COMMON = dict(level="proof",
              technique="Lean 4 proofs about an executable model of server::l2cap_input/l2cap_output and the attribute access functions + differential correspondence with real server types (ASan/UBSan, exactly-sized heap buffers)",
              assumptions=["servers without fixed handles / includes / secondary services / priorities (handle = index + 1)",
                           "user handlers obey their documented contract (out_size <= read_size; HandlersOk); the harness's handlers do (handlersOk_std)",
                           "tables / states are well-formed (decidable TableWF / StateWF: what the C++ types guarantee by construction); evaluated by the model driver on every table dumped from the real templates and every initial state",
                           "Prepare/Execute Write with a write queue are exercised on the real code only (attwq models them)"])

T = "BluetoeModel.AttAccess."
PROPS = {
    "C01": dict(COMMON,
                theorems=[T + "step_len_le_mtu", T + "step_framing_partial", T + "step_silent", T + "step_no_oob_read",
                          T + "step_no_oob", T + "step_assert_iff", T + "history_no_oob", T + "notify_no_oob",
                          T + "readAccess_ok", T + "writeAccess_ok", T + "fixup_some", T + "handlersOk_std"],
                imports=["BluetoeModel.AttAccess.Props", "BluetoeModel.AttAccess.Safety", "BluetoeModel.AttAccess.StepSafety"],
                witnesses=[T + "step_framing_full_witness"],
                run=run_c01, design_ref="§5 C01",
                level_text="For every server table without gaps, every memory/connection state and every non-empty PDU the model of l2cap_input never returns more than min(out_size, negotiated MTU) bytes and answers every request with its response opcode or an Error Response naming it. Memory safety, both halves: no read outside the input PDU (step_no_oob_read, unconditional) and, for every well-formed table and state (decidable TableWF/StateWF: max MTU >= 23, a 128 bit value attribute follows its declaration, bound memory >= sizeof(T), CCCD positions inside the connection's array -- evaluated by the model driver on every table dumped from the real templates), every handler implementation obeying the documented contract (out_size <= read_size), every non-empty PDU and out_size >= 23, the result is a PDU: no write outside the output buffer, no copy outside a value in memory, no assert (step_no_oob); the precondition is exact (step_assert_iff: the asserts of l2cap_input fire iff it is violated) and invariant, so the same holds for every history (history_no_oob) and for l2cap_output (notify_no_oob). Tied to the code by differential runs on 16 real server types (two with auto-generated characteristic UUIDs, fixup_auto_uuid: fixup_some) (+2 write-queue servers on the real code only) under ASan/UBSan with exactly-sized heap buffers.",
                level_note="Read By Type swallows a failing attribute access in the code and in the model (collectStep ignores the access result), so for that path the value-memory claim is carried by readAccess_ok (no access to any table attribute leaves its value) rather than by the PDU result. Full framing statement is false of the code (unknown commands / 0x1B / malformed 0x1E are answered, pinned by tests): witness theorem + partial theorem + known findings."),
    "C08": dict(COMMON,
                theorems=[T + "mtu_after_history", T + "invalid_exchange_rejected", T + "response_le_negotiated", T + "notification_le_negotiated"],
                witnesses=[T + "notification_unfixed_witness"],
                run=run_c08, design_ref="§5 C08",
                level_text="client MTU after any history = last valid exchanged value or 23; invalid exchanges are rejected without state change; responses and (with fix attaccess-01) notifications/indications never exceed min(server MTU, client MTU).",
                level_note="requires fixes/attaccess-01-l2cap-output-mtu.patch; without it the check reports C08:notification-exceeds-negotiated-mtu"),
    "C06": dict(COMMON,
                theorems=[T + "write_refines", T + "write_rejected_unchanged", T + "read_refines", T + "no_write_enforced", T + "no_read_enforced_bound", T + "properties_match_permissions_partial",
                          T + "write_property_matches_permission", T + "read_property_matches_permission_partial", T + "read_property_excluded_all_fail",
                          T + "declared_read_permitted", T + "declared_write_permitted", T + "handler_read_refines", T + "handler_write_refines",
                          T + "handler_permissions_enforced", T + "no_read_access_enforced_partial", T + "no_read_cstring_all_fail"],
                witnesses=[T + "no_read_handler_witness", T + "read_property_full_witness", T + "no_read_access_handler_witness", T + "no_read_access_cstring_witness"],
                run=run_c06, design_ref="§5 C06", imports=["BluetoeModel.AttAccess.ValueProps", "BluetoeModel.AttAccess.Permissions"],
                level_text="Write Request to a bound value stores exactly the written bytes at offset 0 and changes nothing else, a rejected write changes nothing, Read / Read Blob return the value from the offset truncated to MTU-1 or Invalid Offset past the end. Declared properties vs permissions for every value kind (bound, fixed, cstring/blob, handler): no Write property => every write refused and nothing changes (full strength); no Read property => no read succeeds, except exactly handler values with a read handler and no_read_access; a declared Read / Write property is never answered Read / Write Not Permitted by the library. Handler values under the documented contract (out_size <= read_size): a read/write is exactly the handler's answer (plain handlers: offset 0 only, else Attribute Not Long), write-only / read-only handler characteristics refuse the other direction. The no_read_access option is enforced for bound, fixed and handler-without-read-handler values.",
                level_note="Excluded inputs = exactly the two known findings: no_read_access is ignored by value_handler_base (handler values with a read handler: declaration lacks Read but reads succeed) and by cstring_wrapper (cstring / fixed blob values: declared readable and readable); witness theorems for both, and theorems that every excluded input does violate the full statement (the exclusion is not larger than the finding)."),
    "C05": dict(COMMON,
                theorems=[T + "protected_read_rejected", T + "protected_write_rejected", T + "protected_request_rejected", T + "protected_not_notified", T + "protected_not_read_by_type", T + "requiresEnc_table",
                          T + "step_noninterference", T + "dispatch_noninterference", T + "notify_noninterference", T + "handleReadMultiple_ni", T + "handleReadByType_ni",
                          T + "sameUnprotected_of_agree", T + "niSrv_agree"],
                witnesses=[],
                run=run_c05, design_ref="§5 C05", imports=["BluetoeModel.AttAccess.ValueProps", "BluetoeModel.AttAccess.NonInterference"],
                level_text="If the three-level option inheritance says a characteristic requires encryption and the link is not encrypted, every access to its value or CCCD is rejected with 0x05 (no key) / 0x0F before any byte is read or written; Read, Read Blob, Write, Write Command answer with that error, Read By Type skips the attribute, Read Multiple fails, notifications/indications are not sent. Whole-PDU non-interference: on an unencrypted link the response to every request other than Write Request / Write Command (Read, Read Blob, Read Multiple, Read By Type, Find By Type Value, Find Information, Read By Group Type, Exchange MTU, Prepare/Execute without queue, unknown opcodes) and every notification / indication is identical for any two memories that agree on the cells of the unprotected values, i.e. independent of the content of protected memory (step_noninterference, notify_noninterference).",
                level_note="Prepare/Execute Write with a write queue belong to attwq (C07) and are not part of this model; unprotected handler values are covered under the hypothesis that the user's handler answers the same for both memories (the library cannot confine user code)."),
}
