"""C19 — L2CAP fragmentation and reassembly (bluetoe/link_layer/include/bluetoe/ll_l2cap_sdu_buffer.hpp)"""
import re
from vlib.core import Result

NAME = "l2capsdu"
LEAN_MODULE = "BluetoeModel.L2capSdu"
DRIVER = "drv_l2capsdu"
HARNESS_DESC = "harness/l2capsdu.cpp (real ll_l2cap_sdu_buffer<mock radio, mock callbacks, MTU>, object and every PDU in exactly sized heap blocks)"
HARNESS = dict(src="harness/l2capsdu.cpp")

CONFIGS = [(24, 0), (24, 1), (65, 1), (100, 1), (247, 0)]
MAXTX = [29, 29, 30, 40, 64, 100, 253]
P = "C19"


def hx(b):
    return bytes(b).hex() if len(b) else "-"


def unhex(s):
    return b"" if s == "-" else bytes.fromhex(s)


def pdu(llid, body, ovh, rng=None, hdr_len=None):
    """an LL data channel PDU as the radio stores it: header, layout bytes, body"""
    flags = (rng.randrange(8) << 2) if rng else 0          # NESN / SN / MD bits are ignored
    n = len(body) if hdr_len is None else hdr_len
    return bytes([llid | flags, n & 0xff]) + b"\xaa" * ovh + bytes(body)


def frame(rng, n, cid=None):
    cid = rng.choice([4, 5, 6, 0x40]) if cid is None else cid
    return bytes([n & 0xff, n >> 8, cid & 0xff, cid >> 8]) + bytes(rng.randrange(256) for _ in range(n))


def split(rng, data, first_min, maxbody):
    """split data into a first part of at least first_min bytes and further non-empty parts"""
    if len(data) <= first_min:
        return [data]
    a = rng.randrange(first_min, min(len(data), maxbody) + 1)
    parts, rest = [data[:a]], data[a:]
    while rest:
        k = rng.randrange(1, min(len(rest), maxbody) + 1)
        if rng.random() < 0.4:
            k = min(len(rest), maxbody)
        parts.append(rest[:k])
        rest = rest[k:]
    return parts


# ---------------------------------------------------------------------------------------------
# generator
# ---------------------------------------------------------------------------------------------
def gen_train(rng, mtu, ovh, res):
    """a (mostly) well-formed fragment train for one SDU, possibly with one targeted mutation;
    returns a list of `rx` ops"""
    maxbody = rng.choice([27, 27, 27, 60, 251])
    r = rng.random()
    n = rng.choice([0, 1, mtu - 1, mtu, mtu]) if r < 0.3 else rng.randrange(0, mtu + 1)
    f = frame(rng, n)
    parts = split(rng, f, 4, maxbody)
    if len(parts) == 1 and rng.random() < 0.6 and len(f) > 5:
        cut = rng.randrange(4, len(f))
        parts = [f[:cut], f[cut:]]
    pdus = [pdu(2, parts[0], ovh, rng)] + [pdu(1, x, ovh, rng) for x in parts[1:]]
    m = rng.random()
    kind = "wellformed"
    if m < 0.45:
        pass
    elif m < 0.53:
        kind = "overlong-last"
        extra = bytes(rng.randrange(256) for _ in range(rng.choice([1, 2, 12, 27, 200])))
        if len(pdus) == 1:
            pdus.append(pdu(1, extra, ovh, rng))
        else:
            pdus[-1] = pdu(1, (parts[-1] + extra)[:255], ovh, rng)
    elif m < 0.58:
        kind = "extra-continuations"
        pdus += [pdu(1, bytes([k] * rng.choice([1, 27, 251])), ovh, rng) for k in range(rng.randrange(1, 4))]
    elif m < 0.63:
        kind = "missing-last"
        if len(pdus) > 1:
            pdus.pop()
    elif m < 0.70:
        kind = "restart-mid-train"
        k = rng.randrange(1, len(pdus) + 1)
        pdus = pdus[:k] + pdus
    elif m < 0.75:
        kind = "announce-too-large"
        n2 = mtu + rng.choice([1, 2, 100, 60000])
        body = bytes([n2 & 0xff, n2 >> 8, 4, 0]) + bytes(rng.randrange(256) for _ in range(rng.randrange(0, 23)))
        pdus = [pdu(2, body, ovh, rng)] + pdus[1:]
    elif m < 0.79:
        kind = "short-start"
        pdus = [pdu(2, f[:rng.randrange(0, 4)], ovh, rng)] + pdus[1:]
    elif m < 0.86:
        kind = "ll-pdu-mid-train"
        k = rng.randrange(1, len(pdus) + 1)
        pdus = pdus[:k] + [pdu(3, bytes([rng.randrange(256) for _ in range(rng.randrange(1, 27))]), ovh, rng)] + pdus[k:]
    elif m < 0.91:
        kind = "unfragmented-mid-train"
        k = rng.randrange(1, len(pdus) + 1)
        pdus = pdus[:k] + [pdu(2, frame(rng, rng.randrange(0, 24)), ovh, rng)] + pdus[k:]
    elif m < 0.94:
        kind = "llid0-or-empty-continuation"
        k = rng.randrange(1, len(pdus) + 1)
        pdus = pdus[:k] + [pdu(rng.choice([0, 1]), b"" if rng.random() < 0.5 else parts[-1][:1], ovh, rng)] + pdus[k:]
    elif m < 0.97:
        kind = "overlong-start"
        pdus[0] = pdu(2, (f + bytes(rng.randrange(1, 9)))[:255], ovh, rng)
    else:
        kind = "header-length-mismatch"
        pdus[0] = pdu(2, parts[0], ovh, rng, hdr_len=rng.randrange(256))
    res.count("train:" + kind)
    return ["rx " + hx(p) for p in pdus]


def rand_maxtx(rng):
    """a legal max_tx_size(): LL payload 27..251 plus the 2 header bytes"""
    return rng.choice(MAXTX) if rng.random() < 0.5 else rng.randrange(29, 254)


def gen_stalled_sdu(rng, mtu, ovh, res):
    """an outgoing SDU that stalls mid-way because the radio runs out of transmit buffers (allocation
    fails for k polls), with max_tx_size() changed (mostly shrunk, e.g. by a data length update) while
    it is stalled, then resumed buffer by buffer"""
    m0 = rng.choice([40, 64, 100, 253, rand_maxtx(rng)])
    n = rng.randrange(max(1, mtu // 2), mtu + 1)
    total = n + 4 + 2 + ovh
    nfr = max(1, -(-total // m0))
    ops = ["maxtx %d" % m0, "bufs %d" % rng.randrange(1, nfr + 1), "send " + hx(frame(rng, n))]
    for _ in range(rng.randrange(1, 4)):                       # polls while stalled
        ops.append(rng.choice(["pump 27", "pump 27", "take"]))
    for _ in range(rng.randrange(1, 4)):                       # size changes while stalled / resuming
        r = rng.random()
        m = rng.randrange(29, m0 + 1) if r < 0.6 else (29 if r < 0.8 else rand_maxtx(rng))
        ops.append("maxtx %d" % m)
        ops.append(rng.choice(["pump 27", "take", "bufs 1", "bufs 1"]))
        if rng.random() < 0.5:
            ops += ["bufs 1", rng.choice(["pump 27", "take"])]
    ops += ["bufs %d" % rng.choice([1, 2, 20]), rng.choice(["pump 27", "take"])]
    res.count("send:stalled-then-max-tx-changed")
    return ops


def gen_session(rng, res, length, malformed=False):
    mtu, ovh = rng.choice(CONFIGS)
    maxtx = rng.choice(MAXTX)
    ops = ["reset %d %d %d" % (mtu, ovh, maxtx)]
    if not malformed and rng.random() < 0.3:
        ops += gen_stalled_sdu(rng, mtu, ovh, res)             # no free buffer yet: the SDU does stall
    while len(ops) < length:
        r = rng.random()
        if malformed:
            # unstructured stream: random PDUs of random sizes and LLIDs, random consumption
            if r < 0.6:
                n = rng.choice([0, 1, 3, 4, 5, 27, 100, 251, rng.randrange(0, 252)])
                body = bytearray(rng.randrange(256) for _ in range(n))
                if n >= 2 and rng.random() < 0.6:
                    a = rng.choice([n - 4, n - 3, mtu, mtu + 1, rng.randrange(0, mtu + 2)]) % 65536
                    body[0], body[1] = a & 0xff, a >> 8
                ops.append("rx " + hx(pdu(rng.randrange(4), body, ovh, rng)))
                res.count("malformed-rx")
            elif r < 0.85:
                ops.append("take")
            elif r < 0.92:
                ops.append("next")
            else:
                ops.append("free")
            continue
        if r < 0.40:
            ops += gen_train(rng, mtu, ovh, res)
            if rng.random() < 0.8:
                ops += ["take"] * rng.randrange(1, 4)
        elif r < 0.50:
            ops.append(rng.choice(["take", "take", "next", "next", "free"]))
        elif r < 0.60:
            ops.append("bufs %d" % rng.choice([1, 1, 2, 3, 10]))
        elif r < 0.80:
            n = rng.choice([0, 1, 22, 23, 24, mtu - 1, mtu, rng.randrange(0, mtu + 1)])
            f = bytearray(frame(rng, n))
            m = rng.random()
            if m < 0.08 and n > 0:          # length field smaller than what was written
                a = rng.randrange(0, n)
                f[0], f[1] = a & 0xff, a >> 8
                res.count("send:length-field-smaller")
            elif m < 0.12 and n < mtu:      # length field larger (stale bytes of the buffer are sent)
                a = rng.randrange(n + 1, mtu + 1)
                f[0], f[1] = a & 0xff, a >> 8
                res.count("send:length-field-larger")
            else:
                res.count("send:wellformed")
            ops.append("send " + hx(f))
        elif r < 0.86:
            ops.append("pump %d" % rng.choice([0, 27, 27, 251]))
        elif r < 0.89:
            ops += gen_stalled_sdu(rng, mtu, ovh, res)
        elif r < 0.93:
            ops.append("maxtx %d" % rand_maxtx(rng))
        else:
            ops.append("llsend " + hx(pdu(3, bytes(rng.randrange(256) for _ in range(rng.randrange(1, 27))), ovh, rng)))
    return ops


def small_scope(mtu, ovh, depth):
    """all sequences of `depth` PDUs from a small alphabet of fragments, each followed by take"""
    f = bytes([3, 0, 4, 0, 0x11, 0x22, 0x33])
    big = bytes([mtu & 0xff, 0, 4, 0]) + bytes(range(6))
    alpha = [pdu(2, f[:4], ovh), pdu(2, f[:5], ovh), pdu(2, f, ovh), pdu(2, big, ovh), pdu(1, f[4:5], ovh),
             pdu(1, f[5:], ovh), pdu(1, f[4:], ovh), pdu(1, bytes(range(mtu - 2)), ovh), pdu(1, bytes([9] * 251), ovh),
             pdu(3, b"\x09\x08", ovh), pdu(1, b"", ovh)]
    seqs = [[]]
    for _ in range(depth):
        seqs = [s + [a] for s in seqs for a in alpha]
    out = []
    for s in seqs:
        ops = ["reset %d %d 29" % (mtu, ovh)]
        for p in s:
            ops += ["rx " + hx(p), "take"]
        ops += ["take"]
        out.append(ops)
    return out


# ---------------------------------------------------------------------------------------------
# monitor: the property statement evaluated on the implementation's outputs (independent oracle)
# ---------------------------------------------------------------------------------------------
KV = re.compile(r"(\w+)=(\S+)")


def parse_next(out):
    w = out.split()
    kind = w[0]
    data = unhex(w[1]) if kind in ("pdu", "sdu") else None
    return kind, data, dict(KV.findall(out))


def monitor(ops, outs):
    """returns list of (op index, key, what)"""
    fails = []
    mtu = ovh = llov = 0
    maxtx = 0
    pending = []          # PDUs queued at the radio, oldest first
    train = None          # [start pdu, [continuation bodies]] of the consumed stream
    delivered = False     # the current train was already delivered
    handed = None         # what the last next handed out and was not yet freed: ("pdu"|"sdu", bytes)
    sdu, frs, wellformed, sdulen = None, [], False, 0     # tx: SDU being sent, its fragments so far
    llsent = []

    def fail(k, key, what):
        fails.append((k, P + ":" + key, what))

    def consume(n, k):
        nonlocal train, delivered
        for _ in range(n):
            if not pending:
                fail(k, "radio-queue-underrun", "more PDUs consumed than were received")
                return
            p = pending.pop(0)
            t = p[0] & 3
            if t == 2:
                train, delivered = [p, []], False
            elif t != 3 and train is not None:
                train[1].append(p[llov:])

    def check_tx(k, kv):
        nonlocal sdu, frs
        if "tx" not in kv or kv["tx"] == "-":
            pdus = []
        else:
            pdus = [unhex(x) for x in kv["tx"].split(",")]
        for p in pdus:
            t = p[0] & 3
            if len(p) > maxtx:
                fail(k, "fragment-larger-than-max-tx", "PDU of %d bytes allocated and sent while max_tx_size() is %d" % (len(p), maxtx))
            if t == 3:
                continue
            if sdu is None:
                fail(k, "fragment-without-sdu", "data PDU %s sent without an SDU being committed" % p.hex())
                continue
            if p[1] != len(p) - llov:
                fail(k, "fragment-length-field", "LL length field %d of a fragment with %d payload bytes" % (p[1], len(p) - llov))
            if t != (2 if not frs else 1):
                fail(k, "fragment-llid", "fragment %d of an SDU sent with LLID %d" % (len(frs), t))
            frs.append(p[llov:])
            got = b"".join(frs)
            if len(got) > sdulen or (wellformed and sdu[:len(got)] != got):
                fail(k, "fragments-not-prefix-of-sdu", "payloads %s are not a prefix of the SDU %s" % (got.hex(), sdu.hex()))
            if len(got) >= sdulen:
                sdu, frs = None, []         # completely sent
        if sdu is not None and kv.get("ts") == "0":
            fail(k, "fragments-do-not-concatenate-to-sdu", "transmit_size_ is 0 after %s was sent for SDU %s" % (b"".join(frs).hex(), sdu.hex()))
            sdu, frs = None, []
        if sdu is None and kv.get("ts", "0") != "0":
            fail(k, "transmit-size-left-after-sdu", "transmit_size_ = %s although the SDU was sent completely" % kv["ts"])

    def check_next(k, out):
        nonlocal handed, delivered
        kind, data, kv = parse_next(out)
        if kv.get("inv") == "0":
            fail(k, "reassembly-state-out-of-bounds", "receive_size_=%s receive_buffer_used_=%s exceed the buffer of %d bytes" % (kv.get("rs"), kv.get("ru"), mtu + llov + 4))
        consume(len(pending) - int(kv["q"]), k)
        if kind == "sdu":
            if train is None:
                fail(k, "sdu-without-start-fragment", "SDU %s delivered without a start fragment" % data.hex())
            else:
                exp = train[0] + b"".join(train[1])
                body = train[0][llov:]
                ann = body[0] | (body[1] << 8) if len(body) >= 4 else -1
                if delivered and handed is None:
                    fail(k, "sdu-delivered-twice", "SDU %s delivered again after it was freed" % data.hex())
                elif data != exp:
                    fail(k, "sdu-not-start-plus-continuations", "delivered %s, fragments received: %s" % (data.hex(), exp.hex()))
                elif len(data) != ann + 4 + llov:
                    fail(k, "sdu-length-not-announced", "delivered %d bytes, header announces %d" % (len(data) - llov - 4, ann))
            handed = ("sdu", data)
        elif kind == "pdu":
            if not pending or pending[0] != data:
                fail(k, "handed-out-pdu-not-head-of-queue", "PDU %s handed out" % data.hex())
            else:
                t = data[0] & 3
                body = data[llov:]
                if t != 3 and not (t == 2 and len(body) >= 4 and (body[0] | (body[1] << 8)) + 4 == len(body)):
                    fail(k, "handed-out-pdu-not-complete-sdu", "PDU %s handed out as SDU" % data.hex())
            handed = ("pdu", data)
        else:
            handed = None
        check_tx(k, kv)
        return kind

    def check_free(k, out):
        nonlocal handed, delivered, train
        kv = dict(KV.findall(out))
        q = int(kv["q"])
        if handed is not None and handed[0] == "pdu":
            if q != len(pending) - 1:
                fail(k, "handed-out-pdu-not-freed", "free after PDU %s was handed out left %d of %d PDUs queued (the PDU is handed out again)" % (handed[1].hex(), q, len(pending)))
            consume(len(pending) - q, k)
        elif handed is not None:
            if q != len(pending):
                fail(k, "free-of-sdu-freed-a-pdu", "free after an SDU was handed out dropped a queued PDU")
                consume(len(pending) - q, k)
            delivered = True
        else:
            # free without anything handed out (caller error): the radio drops its oldest PDU, which
            # the reassembly never saw
            del pending[:max(0, len(pending) - q)]
        if kv.get("inv") == "0":
            fail(k, "reassembly-state-out-of-bounds", "state out of bounds after free")
        handed = None

    for k, (op, out) in enumerate(zip(ops, outs)):
        w = op.split()
        if out == "bad-op":
            continue
        if w[0] == "reset":
            mtu, ovh, maxtx = int(w[1]), int(w[2]), int(w[3])
            llov = 2 + ovh
            pending, train, delivered, handed, sdu, frs = [], None, False, None, None, []
        elif w[0] == "rx":
            pending.append(unhex(w[1]))
        elif w[0] == "next":
            check_next(k, out)
        elif w[0] == "free":
            check_free(k, out)
        elif w[0] == "take":
            a = out.split(" | ")
            kind = check_next(k, a[0])
            if kind != "none":
                if len(a) == 2:
                    check_free(k, a[1])
        elif w[0] == "maxtx":
            maxtx = int(w[1])
        elif w[0] == "send":
            f = unhex(w[1])
            if out.startswith("busy"):
                if sdu is None:
                    fail(k, "send-refused-while-idle", "allocate_l2cap_transmit_buffer failed although no SDU is pending")
            else:
                if sdu is not None:
                    fail(k, "send-accepted-while-busy", "second SDU accepted while %d bytes of the first are unsent" % (len(sdu) - len(b"".join(frs))))
                n = f[0] | (f[1] << 8)
                wellformed = n + 4 <= len(f)
                sdu, frs, sdulen = f[:n + 4], [], n + 4
                check_tx(k, dict(KV.findall(out)))
        elif w[0] in ("pump", "llsend"):
            check_tx(k, dict(KV.findall(out)))
    return fails


def crash_key(crash):
    """stable class of a sanitizer abort: kind without addresses / indices"""
    k = crash.split(" @")[0]
    k = re.sub(r"index \S+ out of bounds.*", "index out of bounds", k)
    return "%s:crash:%s" % (P, re.sub(r"\d+", "N", k).strip())


def proj(op, line):
    # the number of pdu_receive_data_callback calls belongs to the encryption/connection
    # event bookkeeping, not to this property
    return re.sub(r" cb=\d+", "", line)


def run_c19(ctx, replay_path=None):
    res = Result()
    res.rule = ("sessions = reset <MTU> <layout overhead> <max_tx_size> followed by fragment trains for random SDUs (55% with one "
                "targeted mutation: overlong / extra / missing continuation, restart, announced length > MTU, short start, LL control PDU "
                "or unfragmented SDU mid-train, LLID 0, overlong start, header/length mismatch), consumption as the link layer does it "
                "(take = next + free) or by bare next/free, and outgoing SDUs (length field =, <, > written size) sent with random "
                "buffer availability / max_tx_size changes (any value 29..253, also while an SDU is stalled for lack of radio buffers: "
                "30% of the sessions start with such a stalled SDU whose maximum shrinks before it resumes) / interleaved LL PDUs; plus an unstructured stream (random PDUs); every session is "
                "run on the real ll_l2cap_sdu_buffer<> (MTU 24, 65, 100, 247) under ASan/UBSan and on the Lean model and compared line by "
                "line (all outputs, receive_size_/receive_buffer_used_/transmit_size_/transmit_buffer_used_ included; callback count "
                "projected out), and independently checked by a Python oracle of the property statement; distinct = distinct sessions "
                "that deliver a reassembled SDU, drop a malformed train or send a fragmented SDU")
    sessions = [ops for _, ops in ctx.corpus()]
    ncorpus = len(sessions)
    n, nm = (3000, 800) if ctx.thorough else (350, 90)
    for _ in range(n):
        sessions.append(gen_session(ctx.rng, res, ctx.rng.randrange(8, 60)))
    for _ in range(nm):
        sessions.append(gen_session(ctx.rng, res, ctx.rng.randrange(8, 60), malformed=True))
    if ctx.thorough:
        ss = small_scope(24, 0, 3) + small_scope(24, 1, 2)
        sessions += ss
        res.extra["exhaustive_small_scope"] = "all sequences of 3 (MTU 24, overhead 0) / 2 (overhead 1) PDUs out of 11 fragment shapes, each followed by take: %d sessions" % len(ss)
    impl, model, dis = ctx.run_pair(sessions, proj)
    for d in dis:
        ops = ctx.shrink_disagreement(sessions[d["session"]], proj) if len(res.disagreements) < 2 else sessions[d["session"]]
        res.disagreements.append(dict(d, ops=ops))
    shrunk = set()
    for si, (ops, r) in enumerate(zip(sessions, impl)):
        outs = r["out"]
        res.evaluations += len(outs)
        res.sessions += 1
        for o in ops[1:]:
            res.count("op:" + o.split()[0])
        fails = monitor(ops, outs)
        if r["crash"]:
            k = len(outs)
            fails.append((k, crash_key(r["crash"]), "%s at op `%s`" % (r["crash"], ops[min(k, len(ops) - 1)][:80])))
        for k, key, what in fails[:1]:
            fops = ops[:k + 1]
            if key not in shrunk and len(shrunk) < 4:
                shrunk.add(key)

                def still(cand, key=key):
                    rr = ctx.run_impl([cand])[0]
                    ff = monitor(cand, rr["out"])
                    if rr["crash"]:
                        ff.append((0, crash_key(rr["crash"]), ""))
                    return any(x[1] == key for x in ff)
                fops = ctx.shrink(fops, still, budget=60)
            res.failures.append({"key": key, "what": what, "ops": fops})
        joined = " ".join(outs)
        sdus = joined.count("sdu ")
        dropped = any(o.startswith(("take", "next")) and x.startswith("none") and " ru=0" in x for o, x in zip(ops, outs))
        fragged = any("," in x.split("tx=")[1].split()[0] for x in outs if "tx=" in x)
        res.count("sessions_delivering_reassembled_sdu", bool(sdus))
        res.count("sessions_sending_fragmented_sdu", fragged)
        res.count("reassembled_sdus", sdus)
        if sdus or fragged or (dropped and si >= ncorpus):
            res.distinct.add(hash(tuple(ops)))
    res.samples = [" ; ".join(s[:10])[:400] for s in sessions[ncorpus:ncorpus + 3]]
    return res


PROPS = {
    "C19": dict(
        theorems=["BluetoeModel.L2capSdu.reassembly_in_bounds",
                  "BluetoeModel.L2capSdu.delivered_is_start_plus_continuations",
                  "BluetoeModel.L2capSdu.handed_out_pdu_is_head_and_complete",
                  "BluetoeModel.L2capSdu.free_frees_what_was_handed_out",
                  "BluetoeModel.L2capSdu.fragments_concat_eq_sdu",
                  "BluetoeModel.L2capSdu.fragments_le_max_tx",
                  "BluetoeModel.L2capSdu.fragment_le_max_tx_step",
                  "BluetoeModel.L2capSdu.transmit_in_bounds"],
        witnesses=["BluetoeModel.L2capSdu.Orig.reassembly_overflow_witness",
                   "BluetoeModel.L2capSdu.Orig.continuation_without_start_overflow_witness",
                   "BluetoeModel.L2capSdu.Orig.second_start_appends_witness",
                   "BluetoeModel.L2capSdu.Orig.ll_pdu_handed_out_twice_witness"],
        imports=["BluetoeModel.L2capSdu.Props", "BluetoeModel.L2capSdu.Orig"],
        run=run_c19,
        level="proof",
        technique="Lean 4 invariant proofs over all fragment histories / buffer schedules + differential correspondence with the real ll_l2cap_sdu_buffer<> under ASan/UBSan",
        level_text="For every MTU, layout overhead and every history of received PDUs / next / free calls the model of the (fixed) reassembly never writes outside receive_buffer_ and every delivered SDU is exactly the most recent start fragment followed by all continuations received since, with the announced length; for every SDU and every schedule of buffer availability and max_tx_size changes the fragments are one start + continuations, each within max_tx_size, concatenating to the SDU. The model is tied to the code by identical random / mutated / small-scope-exhaustive sessions on both, with the object under test and every PDU in exactly sized heap blocks.",
        level_note="Trusted: Lean kernel + standard axioms; model = code only as far as the differential check samples it; the buffered radio is a mock (FIFO, exactly sized buffers); LLID 0 PDUs are treated as continuations by the code and by the model.",
        design_ref="§5 C19",
        assumptions=["buffered radio = mock of harness/l2capsdu.cpp (next_received hands out size = header + layout + body bytes)",
                     "MTUSize + overhead < 65536 (receive_size_/transmit_size_ are uint16_t)",
                     "L2CAP layer writes a length field <= MTUSize (l2cap.hpp does)"],
    ),
}
